#!/bin/bash
# usage: seed_confirm.sh <worktree> <demo test name>   -- confirms a seeded change in its scratch worktree
set -u
WT=$1; DEMO=$2
export CARGO_NET_OFFLINE=true
cd $WT || exit 2
mkdir -p /tmp/seedtmp && mv tests/$DEMO.rs /tmp/seedtmp/ 
echo "== suite with change"; cargo test --workspace --offline 2>&1 | grep -E "^test result|FAILED|error(\[|:)" | sort | uniq -c
mv /tmp/seedtmp/$DEMO.rs tests/
echo "== demo with change"; cargo test --offline --test $DEMO 2>&1 | grep -E "^test result|error(\[|:)"
git apply -R patch.diff
echo "== demo without change"; cargo test --offline --test $DEMO 2>&1 | grep -E "^test result|error(\[|:)"
git apply patch.diff
git status --short | head -5
