#!/bin/bash
# runs every check (quick by default) sequentially and prints a summary; used to regenerate the evidence files
cd /verif
TIER=${1:-quick}
for id in C01 C02 C03 C04 C05 C06 C07 C08 C09 C10 C11 C12 C13 C14 C15 C16 C17 C18 C19 C20; do
  s=$(date +%s)
  tmp=$(mktemp /verif/build/runout.XXXXXX)
  timeout 3000 ./check $id --tier $TIER > $tmp 2>/dev/null
  rc=$?
  out=$(grep -E "^C[0-9]+:|VIOLATION|INCONCLUSIVE|KNOWN" $tmp | tail -4); rm -f $tmp
  e=$(date +%s)
  echo "== $id rc=$rc $((e-s))s"; echo "$out"
done
