#!/usr/bin/env python3
"""Regenerates /verif/MANIFEST.json from the table below."""
import json, os
V = os.path.dirname(os.path.dirname(os.path.abspath(__file__)))

TECH_E1 = ("symbolic execution of the compiler's MIR into SMT (integers with explicit machine semantics); each path "
           "condition => spec VC decided by z3 over all coefficient values; counterexamples replayed on the native build")
NOTE_E1 = ("trusted: nightly MIR as representation of the code, the builtin models of core functions listed in the evidence, z3; "
           "counterexamples are only reported after reproducing on a native build of /repo")

CLAIMED = {
    "C01": ("All 19x19 scale pairs, all coefficient pairs, 9 integer types, operators/checked/by-ref/assign forms of + and -: "
            "outcome equals the exact sum at scale max(p,q) iff everything fits i128, else panic/None.", "2 C01"),
}
NA = {}

def main():
    props = [json.loads(l)["id"] for l in open(os.path.join(V, "properties.jsonl"))]
    checks = []
    for pid in props:
        if pid in CLAIMED:
            text, ref = CLAIMED[pid]
            checks.append({
                "property_id": pid,
                "quick_cmd": "./check %s --tier quick" % pid,
                "thorough_cmd": "./check %s --tier thorough" % pid,
                "evidence_file": "/verif/evidence/%s.json" % pid,
                "replay_cmd_template": "./check replay {path}",
                "engine": "mir2smt",
                "level_claimed": {"category": "model_checking", "text": text, "design_ref": "DESIGN.md section " + ref},
                "level_note": NOTE_E1,
                "technique": TECH_E1,
            })
    na = []
    for pid in props:
        if pid not in CLAIMED:
            na.append({"property_id": pid, "reason": NA.get(pid, "check not built yet in this session (framework under construction); no verdict is claimed")})
    m = {
        "version": 1,
        "setup_cmd": "cd /verif && ./setup.sh",
        "hooks": {"guard": "fpdec_verif", "enable": "none needed: private functions are reached through the MIR dump; RUSTFLAGS='--cfg fpdec_verif' would enable hooks if any existed",
                  "baseline_off_cmd": "cd /repo && cargo test --workspace --no-fail-fast --offline", "source_commits": [], "add_only": True},
        "engines": [
            {"name": "mir2smt", "path": "/verif/mir2smt", "serves_properties": sorted(CLAIMED), "kind_free_text": "MIR -> SMT symbolic executor (z3 5.1, Int theory), path-wise with optional state merging"},
        ],
        "checks": checks,
        "not_applicable": na,
        "notes": "exit 0 held, 1 VIOLATION (replayed natively), 2 inconclusive (never on the unchanged tree). See DESIGN.md.",
    }
    json.dump(m, open(os.path.join(V, "MANIFEST.json"), "w"), indent=1)

main()
