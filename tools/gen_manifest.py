#!/usr/bin/env python3
"""Regenerates /verif/MANIFEST.json from the table below."""
import json, os
V = os.path.dirname(os.path.dirname(os.path.abspath(__file__)))

TECH_E1 = ("symbolic execution of the compiler's MIR into SMT (integers with explicit machine semantics); each path "
           "condition => spec VC decided by z3 over all coefficient values; counterexamples replayed on the native build")
NOTE_E1 = ("trusted: nightly MIR as representation of the code, the builtin models of core functions listed in the evidence, z3; "
           "counterexamples are only reported after reproducing on a native build of /repo")

CLAIMED = {
    "C01": ("All 19x19 scale pairs, all coefficient pairs, 9 integer types, operators/checked/by-ref/assign forms of + and -: "
            "outcome equals the exact sum at scale max(p,q) iff everything fits i128, else panic/None.", "2 C01"),
}
CLAIMED.update({
    "C02": ("Mul/CheckedMul/MulAssign for Decimal x Decimal (sign-split, all 8 modes, zero/one short-cuts, wide 256-bit path through the "
            "C16 kernel contracts) and Decimal x integer in both positions: result equals the exact or the singly rounded product, failure iff not representable.", "2 C02"),
    "C05": ("round/checked_round for every scale, every n in i8 (quick: boundary + seeded subset), all 8 modes, all coefficients; "
            "the rounding kernel i128_div_rounded against a declarative rounding relation with symbolic divisor.", "2 C05"),
    "C16": ("Kernel obligations K0-K4 from the MIR: 128x128 multiply, 256/64 and 256/128 Knuth division for all 64 normalisation shifts "
            "(merged-state encoding with proved stepping-stone lemmas), dispatch, floor fix-ups, rounded wide quotients for all modes and signs.", "2 C16"),
})
CLAIMED.update({
    "C03": ("Div/CheckedDiv/DivAssign for all operand shapes: zero divisor, zero dividend and divisor-one short-cuts, rounding to 18 digits through "
            "checked_div_rounded (contract; its obligations are the C04 'cdr' cases), normalisation (contract proved from the MIR for every entry scale); "
            "all 361 scale pairs for Decimal/Decimal.", "2 C03"),
    "C04": ("checked_div_rounded proved against the declarative single-rounding relation for every (dividend scale, n + divisor scale) class, mode and "
            "sign class; div_rounded wrappers for Decimal/int/int-by-int shapes and reference forms, n > 18 rejection, mul_rounded, quantize "
            "(wiring to div_rounded(.., 0) and exact multiplication).", "2 C04"),
})
CLAIMED.update({
    "C08": ("eq / partial_cmp / cmp for Decimal x Decimal over all 361 scale pairs (incl. overflowing alignments) and the 2x9 integer shapes: result equals "
            "the comparison of x*10^q with y*10^p over the integers; partial_cmp never None, cmp never panics.", "2 C08"),
    "C10": ("rem / checked_rem / %= for all shapes and 361 scale pairs incl. the stepwise fallback loop (unrolled with unwinding assertion): the returned "
            "value satisfies X = t*Y + R, |R| < |Y|, sign(R) in {0, sign X} with a witness t assembled from the implementation's own quotient digits; "
            "failures only for a zero divisor or the documented up-scaling overflow.", "2 C10"),
    "C14": ("From<T>, TryFrom<u128>, TryFrom<Decimal> for all 10 integer targets and all scales: Ok / NotAnIntValue / ValueOutOfRange exactly as specified.", "2 C14"),
    "C15": ("floor/ceil/trunc/fract/abs/neg/predicates/magnitude from the MIR for all coefficients and scales, num-traits wrappers (incl. from_str_radix: Invalid for every radix != 10, from_str on the same string otherwise) on the feature MIR; "
            "i128_magnitude and Decimal::magnitude bit-precisely for all inputs by two Kani harnesses.", "2 C15"),
})
CLAIMED.update({
    "C12": ("Float::from_decimal for f64 and f32 from the MIR, per (scale, leading-zero class, sign): returned bit pattern decoded and checked against the "
            "nearest / ties-to-even inequalities over exact integers; the integral-or-zero branch is taken exactly when documented.", "2 C12"),
    "C13": ("TryFrom<f64|f32> for every bit pattern, split by sign and biased exponent (fraction symbolic): NaN/inf/overflow errors, exact integral results, "
            "half-even rounding to 18 digits with normalisation; digit loop with a proved invariant cut per iteration; no panic path.", "2 C13"),
})
CLAIMED.update({
    "C17": ("(a) every by-reference / compound-assignment impl in the MIR (all 9 integer types, all operations) is shown to call the by-value impl once with the "
            "dereferenced operands and pass its result through; (b) integer-operand impls vs. the Decimal/Decimal impl on Decimal::from(i): both executed "
            "symbolically on the same inputs, every pair of paths must agree.", "2 C17"),
    "C20": ("the dev compilation and the unchecked / packed compilations of the same source are executed symbolically on the same inputs for every public "
            "operation; all path pairs must agree on return-vs-panic and on the value (float->Decimal: the other compilation is checked against the C13 spec); "
            "counterexamples are replayed on the dev and release native builds. Known findings: operators that rely on rustc's overflow checks.", "2 C20"),
})
CLAIMED.update({
    "C09": ("gcd_special by an inductive loop-invariant cut on the MIR (base case, preservation of one arbitrary iteration, decreasing variant, exit; no unrolling "
            "bound) modulo six stated gcd facts; as_integer_ratio / numerator / denominator divide exactly by that gcd; Hash::hash feeds exactly that pair to the hasher.", "2 C09"),
    "C19": ("storage model read off the MIR (thread_local static behind LocalKey::with); inductive step from every abstract state of 3 threads under every action "
            "executed on the real bodies; round_quot(None) = round_quot(Some(default())) for all operands; every public rounding call site passes None; schedules "
            "replayed on real threads.", "2 C19"),
})
CLAIMED.update({
    "C06": ("Kani harnesses over the real str_to_dec (all UTF-8 strings up to a length bound, literal level) against an independent reference recogniser, SWAR helpers for "
            "all u64; mir2smt with a byte-slice model for canonical shapes, 30-41 digit mantissas at every dot position, over-long mantissas and exponent shapes "
            "(digits symbolic); from_str's exponent folding for every (coefficient, exponent) pair.", "2 C06, 9.2"),
    "C07": ("String::from / Debug / Display (no precision): the values handed to core::fmt are ('-' iff c<0, |c| div 10^p, |c| mod 10^p, width p) for all (c, p); template "
            "constants byte-identical to the documented format strings compiled by the same compiler; round trip through the parser via the canonical shapes of C06; "
            "feature serde-as-str: the derived Serialize/Deserialize impls executed from the feature MIR (wiring to String::from / from_str, error pass-through).", "2 C07, 9.2"),
    "C11": ("Display::fmt under every precision (None, 0..=18, symbolic >= 19), scale, mode: digits handed to core::fmt are those of the singly rounded / zero-extended "
            "value, sign flag from d, empty prefix; width/fill/flags are pad_integral's documented behaviour (arguments checked).", "2 C11"),
    "C18": ("the macro's post-processing of str_to_dec's result (fpdec-macros MIR) vs. from_str's folding, executed on the same symbolic (coefficient, exponent) / error: "
            "emits new_raw(C, N) iff from_str is Ok((C, N)), panics iff Err; generated programs with boundary literals compiled with the real macro (validated only).", "2 C18"),
})
NA = {}

def main():
    props = [json.loads(l)["id"] for l in open(os.path.join(V, "properties.jsonl"))]
    checks = []
    for pid in props:
        if pid in CLAIMED:
            text, ref = CLAIMED[pid]
            checks.append({
                "property_id": pid,
                "quick_cmd": "./check %s --tier quick" % pid,
                "thorough_cmd": "./check %s --tier thorough" % pid,
                "evidence_file": "/verif/evidence/%s.json" % pid,
                "replay_cmd_template": "./check replay {path}",
                "engine": "mir2smt",
                "level_claimed": {"category": "model_checking", "text": text, "design_ref": "DESIGN.md section " + ref},
                "level_note": NOTE_E1,
                "technique": TECH_E1,
            })
    na = []
    for pid in props:
        if pid not in CLAIMED:
            na.append({"property_id": pid, "reason": NA.get(pid, "check not built yet in this session (framework under construction); no verdict is claimed")})
    m = {
        "version": 1,
        "setup_cmd": "cd /verif && ./setup.sh",
        "hooks": {"guard": "fpdec_verif", "enable": "RUSTFLAGS='--cfg fpdec_verif' when building the native replay driver (/verif/replay); the MIR dumps are taken with the guard off",
                  "baseline_off_cmd": "cd /repo && cargo test --workspace --no-fail-fast --offline", "source_commits": ["9654da5", "85f62ff"], "add_only": True},
        "engines": [
            {"name": "mir2smt", "path": "/verif/mir2smt", "serves_properties": sorted(CLAIMED), "kind_free_text": "MIR -> SMT symbolic executor (z3 5.1, Int theory), path-wise with optional state merging; sampled second-solver pass with cvc5 1.0 and z3 4.8"},
            {"name": "kani", "path": "/verif/kani", "serves_properties": ["C06", "C08", "C15"], "kind_free_text": "Kani 0.68 / CBMC 6.11 proof harnesses over the real crate (path dependency)"},
        ],
        "checks": checks,
        "not_applicable": na,
        "notes": "exit 0 held, 1 VIOLATION (replayed natively), 2 inconclusive (never on the unchanged tree). See DESIGN.md.",
    }
    json.dump(m, open(os.path.join(V, "MANIFEST.json"), "w"), indent=1)

main()
