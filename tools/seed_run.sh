#!/bin/bash
# usage: seed_run.sh <seed dir name> <check id> [more check ids]
# applies seeded/<name>/patch.diff to a scratch worktree of /repo (never to /repo itself), runs the checks against it (VERIF_REPO) with
# their own build directories and evidence directory, and removes the worktree again
N=$1; shift
WT=/tmp/seedrepo-$N
git -C /repo worktree remove --force $WT 2>/dev/null
git -C /repo worktree add -q --detach $WT HEAD || exit 2
[ -f $WT/Cargo.lock ] || cp /repo/Cargo.lock $WT/Cargo.lock     # not tracked in the repository; offline builds need the same lock file
git -C $WT apply /verif/seeded/$N/patch.diff || { git -C /repo worktree remove --force $WT; exit 2; }
export VERIF_REPO=$WT
export VERIF_EVIDENCE_DIR=/verif/build/evidence-seeds; mkdir -p $VERIF_EVIDENCE_DIR
for C in "$@"; do
  echo "== $N vs $C"
  (cd /verif && timeout ${SEED_TIMEOUT:-2400} ./check $C ${SEED_ARGS:-} 2>&1 | grep -E "VIOLATION|INCONCLUSIVE|KNOWN|^C[0-9]+:" | head -6; echo "exit=${PIPESTATUS[0]}")
done
git -C /repo worktree remove --force $WT
git -C /repo worktree prune
