#!/bin/bash
# usage: seed_run.sh <seed dir name> <check id> [more check ids]  -- applies seeded/<name>/patch.diff to /repo, runs the checks, reverts
N=$1; shift
cd /repo && git status --short | grep -q . && { echo "/repo not clean"; exit 2; }
git -C /repo apply /verif/seeded/$N/patch.diff || exit 2
# evidence of runs on a seeded tree must not replace the committed evidence of the unchanged tree
export VERIF_EVIDENCE_DIR=/verif/build/evidence-seeds; mkdir -p $VERIF_EVIDENCE_DIR
for C in "$@"; do
  echo "== $N vs $C"
  (cd /verif && timeout 1500 ./check $C ${SEED_ARGS:-} 2>&1 | grep -E "VIOLATION|INCONCLUSIVE|KNOWN|^C[0-9]+:" | head -6; echo "exit=${PIPESTATUS[0]}")
done
git -C /repo checkout -- .
git -C /repo status --short
