#!/bin/bash
# runs the thorough tier of every check sequentially (hours); evidence goes to build/evidence-thorough so that the committed
# quick-tier evidence is not overwritten; summary in build/thorough.log
cd /verif
export VERIF_EVIDENCE_DIR=/verif/build/evidence-thorough
mkdir -p $VERIF_EVIDENCE_DIR
for id in ${@:-C07 C14 C18 C19 C15 C08 C11 C09 C12 C01 C02 C10 C17 C05 C13 C16 C20 C06 C03 C04}; do
  s=$(date +%s)
  tmp=$(mktemp /verif/build/runout.XXXXXX)
  timeout 14400 ./check $id --tier thorough > $tmp 2>/dev/null
  rc=$?
  out=$(grep -E "^C[0-9]+:|VIOLATION|INCONCLUSIVE|KNOWN" $tmp | tail -8); rm -f $tmp
  e=$(date +%s)
  echo "== $id rc=$rc $((e-s))s"; echo "$out" | cut -c1-400
done
