#!/bin/bash
# re-runs every seeded change against the check of the property it breaks (isolated scratch worktrees); summary in build/seed-regress.log
cd /verif
for d in ${@:-$(ls seeded | sort -t- -k2,2 -k1,1)}; do
  id=${d%%-*}
  s=$(date +%s)
  out=$(SEED_ARGS="--jobs ${SEED_JOBS:-8}" SEED_TIMEOUT=3000 tools/seed_run.sh $d $id 2>&1 | grep -E "^exit=|VIOLATION" | head -2 | tr '\n' ' ')
  e=$(date +%s)
  echo "$d $((e-s))s $out" | cut -c1-200
done
