#!/usr/bin/env python3
"""Translator validation for the builtin models of mir2smt (core integer methods, Option/Result helpers, casts, shifts, bit operations).

/verif/selftest is a small crate with one function per modelled construct.  It is compiled natively (dev profile: overflow checks on) and its
MIR is dumped with the same nightly and flags as fpdec's.  Every function is then
  (1) executed concretely by the MIR interpreter on a grid of boundary vectors and compared with the native result, and
  (2) executed symbolically once; for a sample of vectors exactly one path condition must be satisfied by the vector and the result term,
      evaluated under that assignment, must equal the native result (this exercises the symbolic side of each model: forks, wrap terms, ites).
Exit 0 if everything agrees, 1 otherwise.  Not a property check: it guards the trusted base that every property check relies on.
usage: python3-vt tools/selftest_builtins.py [--sym N]   (N symbolic vectors per function, default 24)"""
import json
import os
import subprocess
import sys
import time

VERIF = os.path.dirname(os.path.dirname(os.path.abspath(__file__)))
sys.path.insert(0, VERIF)
sys.setrecursionlimit(20000)
import z3
from vfw import build
from mir2smt.exec import Program, Executor, State, IV, Agg, EnumV, Unsupported
from mir2smt.vc import sym_int, start_state
from mir2smt import terms as T
from mir2smt import builtins as BI

MIN, MAX = -(1 << 127), (1 << 127) - 1
GRID = [0, 1, -1, 2, -2, 3, 5, -5, 7, 10, 255, 256, -128, 1 << 31, (1 << 63) - 1, 1 << 63, -(1 << 63), 1 << 64, (1 << 64) + 5, -(1 << 64),
        10 ** 18, -10 ** 18, 10 ** 19 + 3, 0x7FF0000000000000, 0x7FF8000000000001, 0x8000000000000000, 0x3FF0000000000000, 0xC000000000000000, 0x47E0000000000000,
        0x47DFFFFFFFFFFFFF, 0xC7E0000000000000, 0x43E0000000000000, 0x7F000000, 0x7F800000, 0x7FC00000, 0x3F800000, 0xBF800000, 0xFF000000, 0x4B800001, 3 * 10 ** 37, -3 * 10 ** 37, 1 << 126, MAX, MAX - 1, MIN, MIN + 1, 12345678901234567890123456789, -98765432109876543210]


def show(v, kind):
    """concrete interpreter value -> the driver's output format"""
    if kind in ("I", "U"):
        return "I %d" % int(v.t)
    if kind == "B":
        b = v if isinstance(v, bool) else bool(int(v.t)) if isinstance(v, IV) else bool(z3.is_true(z3.simplify(v)))
        return "B %d" % int(b)
    if kind in ("O", "OU"):
        return "N" if v.variant == 0 else "S %d" % int(v.fields[0].t)
    if kind == "T":
        f1 = v.fields[1]
        b = f1 if isinstance(f1, bool) else bool(z3.is_true(z3.simplify(f1)))
        return "T %d %d" % (int(v.fields[0].t), int(b))
    raise ValueError(kind)


def ev(model_subst, t):
    if isinstance(t, bool):
        return t
    if isinstance(t, int):
        return t
    r = z3.simplify(z3.substitute(t, *model_subst))
    return r


def main():
    nsym = 24
    if "--sym" in sys.argv:
        nsym = int(sys.argv[sys.argv.index("--sym") + 1])
    d = os.path.join(VERIF, "selftest")
    tdir = os.path.join(build.BUILD, "t-selftest")
    p = subprocess.run(["cargo", "build", "--offline", "--target-dir", tdir], cwd=d, env=build.ENV, stdout=subprocess.PIPE, stderr=subprocess.PIPE)
    if p.returncode != 0:
        print("selftest: native build failed\n" + p.stderr.decode()[-2000:])
        return 2
    os.utime(os.path.join(d, "src", "lib.rs"), None)
    p = subprocess.run(["cargo", "+nightly", "rustc", "--offline", "--lib", "--target-dir", tdir + "-mir", "--", "-Zunpretty=mir", "-C", "debug-assertions=on",
                        "-C", "overflow-checks=on"], cwd=d, env=build.ENV, stdout=subprocess.PIPE, stderr=subprocess.PIPE)
    if p.returncode != 0 or not p.stdout:
        print("selftest: MIR dump failed\n" + p.stderr.decode()[-2000:])
        return 2
    mir = os.path.join(build.BUILD, "selftest.mir")
    open(mir, "wb").write(p.stdout)
    prog = Program([mir], repo=d, overflow_checks=True)
    prog.debug_assertions = True
    fns = json.load(open(os.path.join(d, "fns.json")))
    # native results
    lines = []
    conc_only = {f[0] for f in fns if len(f) > 2 and f[2] == "conc"}
    fns = [(f[0], f[1]) for f in fns]
    for name, kind in fns:
        for a in GRID:
            for b in GRID:
                lines.append("%s %d %d" % (name, a, b))
    out = subprocess.run([os.path.join(tdir, "debug", "selftest")], input="\n".join(lines).encode() + b"\n", stdout=subprocess.PIPE).stdout.decode().split("\n")
    native = dict(zip(lines, out))
    bad, unsupported = [], []
    n_conc = n_sym = 0
    t0 = time.time()
    for name, kind in fns:
        f = [x for x in prog.by_last.get("t_" + name, [])]
        if len(f) != 1:
            unsupported.append((name, "function not found in MIR"))
            continue
        f = f[0]
        # (1) concrete
        try:
            for a in GRID:
                for b in GRID:
                    ex = Executor(prog, unwind=8)
                    outs = ex.explore(start_state(f, [IV(a, "i128"), IV(b, "i128")]))
                    want = native["%s %d %d" % (name, a, b)]
                    if len(outs) != 1:
                        bad.append((name, a, b, "concrete run has %d outcomes" % len(outs), want))
                        continue
                    o = outs[0]
                    got = "P" if o.kind == "panic" else show(o.value, kind)
                    n_conc += 1
                    if got != want:
                        bad.append((name, a, b, got, want))
        except Unsupported as e:
            unsupported.append((name, "concrete: " + str(e)[:200]))
            continue
        # (2) symbolic
        if name in conc_only:
            continue
        try:
            st = State()
            A = sym_int("a", "i128", st)
            B = sym_int("b", "i128", st)
            ex = Executor(prog, unwind=8)
            outs = ex.explore(start_state(f, [A, B], None, st))
            k = 0
            for ia, a in enumerate(GRID):
                for ib, b in enumerate(GRID):
                    if (ia * 31 + ib * 17 + len(name)) % max(1, (len(GRID) ** 2) // nsym) != 0:
                        continue
                    want = native["%s %d %d" % (name, a, b)]
                    hits = []
                    for o in outs:
                        s = z3.Solver()
                        s.set("timeout", 10000)
                        for c in o.state.constraints():
                            s.add(c)
                        s.add(A.t == a, B.t == b)
                        r = s.check()
                        if r == z3.sat:
                            hits.append((o, s.model()))
                        elif r != z3.unsat:
                            hits.append((o, None))
                    n_sym += 1
                    if len(hits) != 1 or hits[0][1] is None:
                        bad.append((name, a, b, "symbolic: %d paths admit the vector" % len(hits), want))
                        continue
                    o, m = hits[0]
                    if o.kind == "panic":
                        got = "P"
                    else:
                        def cv(t):
                            if isinstance(t, (bool, int)):
                                return t
                            r = m.eval(t, model_completion=True)
                            if z3.is_bool(r):
                                return bool(z3.is_true(r))
                            return r.as_long()
                        v = o.value
                        if kind in ("I", "U"):
                            got = "I %d" % cv(v.t)
                        elif kind == "B":
                            got = "B %d" % int(cv(v if not isinstance(v, IV) else v.t))
                        elif kind in ("O", "OU"):
                            got = "N" if v.variant == 0 else "S %d" % cv(v.fields[0].t)
                        else:
                            got = "T %d %d" % (cv(v.fields[0].t), int(cv(v.fields[1])))
                    if got != want:
                        bad.append((name, a, b, "symbolic: " + got, want))
                    k += 1
        except Unsupported as e:
            unsupported.append((name, "symbolic: " + str(e)[:200]))
    print("selftest_builtins: %d functions, %d concrete runs, %d symbolic vectors, %d disagreements, %d unsupported, %.1fs"
          % (len(fns), n_conc, n_sym, len(bad), len(unsupported), time.time() - t0))
    for b in bad[:40]:
        print("  DISAGREE %s(%d, %d): interpreter %s, native %s" % b)
    for u in unsupported:
        print("  UNSUPPORTED %s: %s" % u)
    print("  models used: %d" % len(BI.USED))
    return 1 if bad or unsupported else 0


if __name__ == "__main__":
    sys.exit(main())
