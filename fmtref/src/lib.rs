//! Reference functions using the DOCUMENTED format strings of fpdec's String/Debug/Display impls.
//! Their MIR is dumped with the same compiler; the template constants must be byte-identical to the ones in fpdec's MIR.
use std::fmt;

pub fn t_int(c: i128) -> String {
    format!("{}", c)
}
pub fn t_dec(s: &str, i: i128, f: i128, w: usize) -> String {
    format!("{}{}.{:0width$}", s, i, f, width = w)
}
pub fn t_disp(i: i128, f: i128, w: usize) -> String {
    format!("{}.{:0width$}", i, f, width = w)
}
pub fn t_dbg_int(form: &mut fmt::Formatter<'_>, c: i128) -> fmt::Result {
    write!(form, concat!("Dec!", "({})"), c)
}
pub fn t_dbg_dec(form: &mut fmt::Formatter<'_>, s: &str, i: i128, f: i128, w: usize) -> fmt::Result {
    write!(form, concat!("Dec!", "({}{}.{:0width$})"), s, i, f, width = w)
}
