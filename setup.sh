#!/bin/bash
# Build everything the checks need from files on disk (offline).
set -e
cd "$(dirname "$0")"
export CARGO_NET_OFFLINE=true
mkdir -p build evidence
python3-vt - <<'PY'
import sys
sys.path.insert(0, '/verif')
from vfw import build
for cfg, crates in (("dev", ("core", "main")),):
    for c in crates:
        print(build.mir_dump(cfg, c))
print(build.replay_binary("dev"))
print(build.replay_binary("release"))
PY
