// Native replay driver: calls the public API of /repo under catch_unwind and
// prints one result line per input line.  Used to (a) replay solver
// counterexamples against the real build, (b) co-simulate the MIR executor.
use fpdec::*;
use std::collections::hash_map::DefaultHasher;
use std::hash::{Hash, Hasher};
use std::io::{self, BufRead, Write};
use std::panic;
use std::str::FromStr;

fn mode_of(i: u8) -> RoundingMode {
    match i {
        0 => RoundingMode::Round05Up,
        1 => RoundingMode::RoundCeiling,
        2 => RoundingMode::RoundDown,
        3 => RoundingMode::RoundFloor,
        4 => RoundingMode::RoundHalfDown,
        5 => RoundingMode::RoundHalfEven,
        6 => RoundingMode::RoundHalfUp,
        _ => RoundingMode::RoundUp,
    }
}

fn dec(s: &str) -> Decimal {
    // d:<coeff>:<scale>
    let mut it = s.split(':');
    let _ = it.next();
    let c: i128 = it.next().unwrap().parse().unwrap();
    let p: u8 = it.next().unwrap().parse().unwrap();
    // new_raw has a debug_assert on p; build via unsafe-free path: struct is opaque, so use new_raw
    Decimal::new_raw(c, p)
}

fn show(d: Decimal) -> String {
    format!("OK {} {}", d.coefficient(), d.n_frac_digits())
}
fn show_opt(d: Option<Decimal>) -> String {
    match d {
        Some(d) => show(d),
        None => "NONE".to_string(),
    }
}
fn unhex(s: &str) -> Vec<u8> {
    (0..s.len() / 2).map(|i| u8::from_str_radix(&s[2 * i..2 * i + 2], 16).unwrap()).collect()
}

macro_rules! with_int {
    ($ty:expr, $v:expr, $i:ident, $body:expr) => {
        match $ty {
            "u8" => { let $i: u8 = $v.parse().unwrap(); $body }
            "i8" => { let $i: i8 = $v.parse().unwrap(); $body }
            "u16" => { let $i: u16 = $v.parse().unwrap(); $body }
            "i16" => { let $i: i16 = $v.parse().unwrap(); $body }
            "u32" => { let $i: u32 = $v.parse().unwrap(); $body }
            "i32" => { let $i: i32 = $v.parse().unwrap(); $body }
            "u64" => { let $i: u64 = $v.parse().unwrap(); $body }
            "i64" => { let $i: i64 = $v.parse().unwrap(); $body }
            "i128" => { let $i: i128 = $v.parse().unwrap(); $body }
            _ => panic!("bad int type"),
        }
    };
}

// binary operation on two operands in a given reference form
macro_rules! binop_forms {
    ($form:expr, $a:ident, $b:ident, $tr:ident :: $m:ident, $asg:expr, $show:ident) => {
        match $form {
            "vv" => $show($tr::$m($a, $b)),
            "rv" => $show($tr::$m(&$a, $b)),
            "vr" => $show($tr::$m($a, &$b)),
            "rr" => $show($tr::$m(&$a, &$b)),
            _ => "BADFORM".to_string(),
        }
    };
}
macro_rules! rnd_forms {
    ($form:expr, $a:ident, $b:ident, $tr:ident :: $m:ident, $n:expr) => {
        match $form {
            "vv" => show($tr::$m($a, $b, $n)),
            "rv" => show($tr::$m(&$a, $b, $n)),
            "vr" => show($tr::$m($a, &$b, $n)),
            "rr" => show($tr::$m(&$a, &$b, $n)),
            _ => "BADFORM".to_string(),
        }
    };
}

fn show_bool(b: bool) -> String {
    format!("BOOL {}", b)
}
fn show_ord(o: Option<std::cmp::Ordering>) -> String {
    match o {
        None => "ORD None".to_string(),
        Some(o) => format!("ORD {:?}", o),
    }
}

macro_rules! all_binops {
    ($op:expr, $form:expr, $a:ident, $b:ident, $n:expr, decdec: $dd:expr, lhsdec: $ld:expr) => {
        match $op {
            "add" => { if $form == "as" { if $ld { assign_op!($a, $b, +=) } else { "BADFORM".to_string() } } else { binop_forms!($form, $a, $b, Add::add, true, show) } }
            "sub" => { if $form == "as" { if $ld { assign_op!($a, $b, -=) } else { "BADFORM".to_string() } } else { binop_forms!($form, $a, $b, Sub::sub, true, show) } }
            "mul" => { if $form == "as" { if $ld { assign_op!($a, $b, *=) } else { "BADFORM".to_string() } } else { binop_forms!($form, $a, $b, Mul::mul, true, show) } }
            "div" => { if $form == "as" { if $ld { assign_op!($a, $b, /=) } else { "BADFORM".to_string() } } else { binop_forms!($form, $a, $b, Div::div, true, show) } }
            "rem" => { if $form == "as" { if $ld { assign_op!($a, $b, %=) } else { "BADFORM".to_string() } } else { binop_forms!($form, $a, $b, Rem::rem, true, show) } }
            "cadd" => binop_forms!($form, $a, $b, CheckedAdd::checked_add, false, show_opt),
            "csub" => binop_forms!($form, $a, $b, CheckedSub::checked_sub, false, show_opt),
            "cmul" => binop_forms!($form, $a, $b, CheckedMul::checked_mul, false, show_opt),
            "cdiv" => binop_forms!($form, $a, $b, CheckedDiv::checked_div, false, show_opt),
            "crem" => binop_forms!($form, $a, $b, CheckedRem::checked_rem, false, show_opt),
            "drnd" => rnd_forms!($form, $a, $b, DivRounded::div_rounded, $n),
            "quant" => show(Quantize::quantize($a, $b)),
            "eq" => show_bool($a == $b),
            "ne" => show_bool($a != $b),
            "pcmp" => show_ord($a.partial_cmp(&$b)),
            "lt" => show_bool($a < $b),
            "le" => show_bool($a <= $b),
            "gt" => show_bool($a > $b),
            "ge" => show_bool($a >= $b),
            _ => "BADOP".to_string(),
        }
    };
}
macro_rules! assign_op {
    ($a:ident, $b:ident, $op:tt) => {{
        let mut t = $a;
        t $op $b;
        show_any(t)
    }};
}
trait ShowAny { fn show_any(self) -> String; }
impl ShowAny for Decimal { fn show_any(self) -> String { show(self) } }
macro_rules! impl_showany_int { ($($t:ty),*) => { $( impl ShowAny for $t { fn show_any(self) -> String { format!("INT {}", self) } } )* } }
impl_showany_int!(u8, i8, u16, i16, u32, i32, u64, i64, i128);
fn show_any<T: ShowAny>(t: T) -> String { t.show_any() }

use std::ops::{Add, Div, Mul, Rem, Sub};

macro_rules! all_binops_intlhs {
    ($op:expr, $form:expr, $a:ident, $b:ident, $n:expr) => {
        match $op {
            "add" => binop_forms!($form, $a, $b, Add::add, true, show),
            "sub" => binop_forms!($form, $a, $b, Sub::sub, true, show),
            "mul" => binop_forms!($form, $a, $b, Mul::mul, true, show),
            "div" => binop_forms!($form, $a, $b, Div::div, true, show),
            "rem" => binop_forms!($form, $a, $b, Rem::rem, true, show),
            "cadd" => binop_forms!($form, $a, $b, CheckedAdd::checked_add, false, show_opt),
            "csub" => binop_forms!($form, $a, $b, CheckedSub::checked_sub, false, show_opt),
            "cmul" => binop_forms!($form, $a, $b, CheckedMul::checked_mul, false, show_opt),
            "cdiv" => binop_forms!($form, $a, $b, CheckedDiv::checked_div, false, show_opt),
            "crem" => binop_forms!($form, $a, $b, CheckedRem::checked_rem, false, show_opt),
            "drnd" => rnd_forms!($form, $a, $b, DivRounded::div_rounded, $n),
            "quant" => show(Quantize::quantize($a, $b)),
            "eq" => show_bool($a == $b),
            "ne" => show_bool($a != $b),
            "pcmp" => show_ord($a.partial_cmp(&$b)),
            "lt" => show_bool($a < $b),
            "le" => show_bool($a <= $b),
            "gt" => show_bool($a > $b),
            "ge" => show_bool($a >= $b),
            _ => "BADOP".to_string(),
        }
    };
}

fn binop(op: &str, form: &str, lhs: &str, rhs: &str, n: u8) -> String {
    let lt = lhs.split(':').next().unwrap();
    let rt = rhs.split(':').next().unwrap();
    if lt == "d" && rt == "d" {
        let a = dec(lhs);
        let b = dec(rhs);
        if op == "mrnd" {
            return rnd_forms!(form, a, b, MulRounded::mul_rounded, n);
        }
        if op == "cmp" {
            return format!("ORD {:?}", a.cmp(&b));
        }
        if op == "min" {
            return show(std::cmp::min(a, b));
        }
        if op == "max" {
            return show(std::cmp::max(a, b));
        }
        return all_binops!(op, form, a, b, n, decdec: true, lhsdec: true);
    }
    if lt == "d" {
        let a = dec(lhs);
        let v = rhs.split(':').nth(1).unwrap();
        return with_int!(rt, v, b, all_binops!(op, form, a, b, n, decdec: false, lhsdec: true));
    }
    if rt == "d" {
        let b = dec(rhs);
        let v = lhs.split(':').nth(1).unwrap();
        return with_int!(lt, v, a, all_binops_intlhs!(op, form, a, b, n));
    }
    // int by int: only div_rounded and quantize (same type)
    let va = lhs.split(':').nth(1).unwrap();
    let vb = rhs.split(':').nth(1).unwrap();
    macro_rules! ii {
        ($t:ty) => {{
            let a: $t = va.parse().unwrap();
            let b: $t = vb.parse().unwrap();
            match op {
                "drnd" => rnd_forms!(form, a, b, DivRounded::div_rounded, n),
                "quant" => show(Quantize::quantize(a, b)),
                _ => "BADOP".to_string(),
            }
        }};
    }
    match lt {
        "u8" => ii!(u8), "i8" => ii!(i8), "u16" => ii!(u16), "i16" => ii!(i16), "u32" => ii!(u32), "i32" => ii!(i32),
        "u64" => ii!(u64), "i64" => ii!(i64), "i128" => ii!(i128), _ => "BADTY".to_string(),
    }
}

fn hash_of<T: Hash>(t: &T) -> u64 {
    let mut h = DefaultHasher::new();
    t.hash(&mut h);
    h.finish()
}

fn unop(op: &str, args: &[&str]) -> String {
    match op {
        "round" => show(dec(args[0]).round(args[1].parse().unwrap())),
        "cround" => show_opt(dec(args[0]).checked_round(args[1].parse().unwrap())),
        "floor" => show(dec(args[0]).floor()),
        "ceil" => show(dec(args[0]).ceil()),
        "trunc" => show(dec(args[0]).trunc()),
        "fract" => show(dec(args[0]).fract()),
        "abs" => show(dec(args[0]).abs()),
        "neg" => show(-dec(args[0])),
        "negref" => show(-&dec(args[0])),
        "magnitude" => format!("INT {}", dec(args[0]).magnitude()),
        "eq_zero" => show_bool(dec(args[0]).eq_zero()),
        "eq_one" => show_bool(dec(args[0]).eq_one()),
        "is_negative" => show_bool(dec(args[0]).is_negative()),
        "is_positive" => show_bool(dec(args[0]).is_positive()),
        "ratio" => { let (n, d) = dec(args[0]).as_integer_ratio(); format!("PAIR {} {}", n, d) }
        "numer" => format!("INT {}", dec(args[0]).numerator()),
        "denom" => format!("INT {}", dec(args[0]).denominator()),
        "hash" => { let d = dec(args[0]); format!("HASH {} {}", hash_of(&d), hash_of(&d.as_integer_ratio())) }
        "tostr" => format!("STR {}", dec(args[0]).to_string()),
        "string_from" => format!("STR {}", String::from(dec(args[0]))),
        "debug" => format!("STR {:?}", dec(args[0])),
        "roundtrip" => {
            let d = dec(args[0]);
            match Decimal::from_str(&d.to_string()) { Ok(e) => show(e), Err(e) => format!("ERR {:?}", e) }
        }
        "serde_roundtrip" => {
            // feature serde-as-str through a real (de)serializer: JSON text, then the value parsed back from it
            let d = dec(args[0]);
            match serde_json::to_string(&d) {
                Ok(js) => match serde_json::from_str::<Decimal>(&js) { Ok(e) => format!("STR {} {}", js, show(e)), Err(e) => format!("STR {} DEERR {}", js, e) },
                Err(e) => format!("SERERR {}", e),
            }
        }
        "fmt" => {
            // fmt d prec|- width|- flags   flags subset of "<^>+0" and optional fill char as f<char>
            let d = dec(args[0]);
            let prec: Option<usize> = if args[1] == "-" { None } else { Some(args[1].parse().unwrap()) };
            let width: Option<usize> = if args[2] == "-" { None } else { Some(args[2].parse().unwrap()) };
            let flags = if args.len() > 3 { args[3] } else { "" };
            format!("STR {}", fmt_dyn(d, prec, width, flags))
        }
        "to_f64" => format!("BITS {}", f64::from(dec(args[0])).to_bits()),
        "to_f32" => format!("BITS {}", f32::from(dec(args[0])).to_bits()),
        "from_f64" => match Decimal::try_from(f64::from_bits(args[0].parse().unwrap())) { Ok(d) => show(d), Err(e) => format!("ERR {:?}", e) },
        "from_f32" => match Decimal::try_from(f32::from_bits(args[0].parse().unwrap())) { Ok(d) => show(d), Err(e) => format!("ERR {:?}", e) },
        "from_u128" => match Decimal::try_from(args[0].parse::<u128>().unwrap()) { Ok(d) => show(d), Err(e) => format!("ERR {:?}", e) },
        "from_int" => with_int!(args[0], args[1], i, show(Decimal::from(i))),
        "to_int" => {
            let d = dec(args[1]);
            macro_rules! ti { ($t:ty) => { match <$t>::try_from(d) { Ok(v) => format!("INT {}", v), Err(e) => format!("ERR {:?}", e) } } }
            match args[0] {
                "u8" => ti!(u8), "i8" => ti!(i8), "u16" => ti!(u16), "i16" => ti!(i16), "u32" => ti!(u32), "i32" => ti!(i32),
                "u64" => ti!(u64), "i64" => ti!(i64), "i128" => ti!(i128), "u128" => ti!(u128), _ => "BADTY".to_string(),
            }
        }
        "from_str" => {
            let b = unhex(if args.is_empty() { "" } else { args[0] });
            match std::str::from_utf8(&b) { Ok(s) => match Decimal::from_str(s) { Ok(d) => show(d), Err(e) => format!("ERR {:?}", e) }, Err(_) => "NOTUTF8".to_string() }
        }
        "try_from_str" => {
            let b = unhex(args[0]);
            let s = std::str::from_utf8(&b).unwrap();
            match Decimal::try_from(s) { Ok(d) => show(d), Err(e) => format!("ERR {:?}", e) }
        }
        "try_from_string" => {
            let b = unhex(args[0]);
            let s = String::from_utf8(b).unwrap();
            match Decimal::try_from(s) { Ok(d) => show(d), Err(e) => format!("ERR {:?}", e) }
        }
        "str_to_dec" => {
            let b = unhex(if args.is_empty() { "" } else { args[0] });
            let s = std::str::from_utf8(&b).unwrap();
            match fpdec_core::str_to_dec(s) { Ok((c, e)) => format!("PAIR {} {}", c, e), Err(e) => format!("ERR {:?}", e) }
        }
        "from_str_radix" => {
            let b = unhex(args[0]);
            let s = std::str::from_utf8(&b).unwrap();
            match <Decimal as num_traits::Num>::from_str_radix(s, args[1].parse().unwrap()) { Ok(d) => show(d), Err(e) => format!("ERR {:?}", e) }
        }
        // kernels (doc-hidden public API of fpdec-core)
        "k_div_rounded" => format!("INT {}", fpdec_core::i128_div_rounded(args[0].parse().unwrap(), args[1].parse().unwrap(), None)),
        "k_shifted_div_rounded" => match fpdec_core::i128_shifted_div_rounded(args[0].parse().unwrap(), args[1].parse().unwrap(), args[2].parse().unwrap(), None) { Some(v) => format!("INT {}", v), None => "NONE".to_string() },
        "k_mul_div_ten_pow_rounded" => match fpdec_core::i128_mul_div_ten_pow_rounded(args[0].parse().unwrap(), args[1].parse().unwrap(), args[2].parse().unwrap(), None) { Some(v) => format!("INT {}", v), None => "NONE".to_string() },
        "k_shifted_div_mod_floor" => match fpdec_core::i128_shifted_div_mod_floor(args[0].parse().unwrap(), args[1].parse().unwrap(), args[2].parse().unwrap()) { Some((q, r)) => format!("PAIR {} {}", q, r), None => "NONE".to_string() },
        "k_i256_div_mod_floor" => match fpdec_core::i256_div_mod_floor(args[0].parse().unwrap(), args[1].parse().unwrap(), args[2].parse().unwrap()) { Some((q, r)) => format!("PAIR {} {}", q, r), None => "NONE".to_string() },
        "k_div_mod_floor" => { let (q, r) = fpdec_core::i128_div_mod_floor(args[0].parse().unwrap(), args[1].parse().unwrap()); format!("PAIR {} {}", q, r) }
        "k_magnitude" => format!("INT {}", fpdec_core::i128_magnitude(args[0].parse().unwrap())),
        "k_mul_pow_ten" => format!("INT {}", fpdec_core::mul_pow_ten(args[0].parse().unwrap(), args[1].parse().unwrap())),
        "k_checked_mul_pow_ten" => match fpdec_core::checked_mul_pow_ten(args[0].parse().unwrap(), args[1].parse().unwrap()) { Some(v) => format!("INT {}", v), None => "NONE".to_string() },
        // num-traits
        "nt_is_zero" => show_bool(num_traits::Zero::is_zero(&dec(args[0]))),
        "nt_is_one" => show_bool(num_traits::One::is_one(&dec(args[0]))),
        "nt_abs" => show(num_traits::Signed::abs(&dec(args[0]))),
        "nt_signum" => show(num_traits::Signed::signum(&dec(args[0]))),
        "nt_abs_sub" => show(num_traits::Signed::abs_sub(&dec(args[0]), &dec(args[1]))),
        "nt_is_positive" => show_bool(num_traits::Signed::is_positive(&dec(args[0]))),
        "nt_is_negative" => show_bool(num_traits::Signed::is_negative(&dec(args[0]))),
        "default_mode" => format!("MODE {:?}", RoundingMode::default()),
        "sched" => sched(args),
        #[cfg(fpdec_verif)]
        "h_mul" => { let (h, l) = fpdec_core::verif_hooks::u128_mul_u128(args[0].parse().unwrap(), args[1].parse().unwrap()); format!("PAIRU {} {}", h, l) }
        #[cfg(fpdec_verif)]
        "h_msb" => format!("INT {}", fpdec_core::verif_hooks::u128_msb(args[0].parse().unwrap())),
        #[cfg(fpdec_verif)]
        "h_idiv64" => { let (h, l, r) = fpdec_core::verif_hooks::u256_idiv_u64(args[0].parse().unwrap(), args[1].parse().unwrap(), args[2].parse().unwrap()); format!("TRIPLE {} {} {}", h, l, r) }
        #[cfg(fpdec_verif)]
        "h_special" => { let (h, l, r) = fpdec_core::verif_hooks::u256_idiv_u128_special(args[0].parse().unwrap(), args[1].parse().unwrap(), args[2].parse().unwrap()); format!("TRIPLE {} {} {}", h, l, r) }
        #[cfg(fpdec_verif)]
        "h_idiv" => { let (h, l, r) = fpdec_core::verif_hooks::u256_idiv_u128(args[0].parse().unwrap(), args[1].parse().unwrap(), args[2].parse().unwrap()); format!("TRIPLE {} {} {}", h, l, r) }
        _ => "BADOP".to_string(),
    }
}

// run a schedule over real threads, sequenced by channels: tokens "<t>s<m>" (thread t sets mode m), "<t>g" (thread t reads
// the default mode), "<t>r<coeff>" (thread t rounds Decimal(coeff, 1) to 0 digits); prints the observations in order
fn sched(args: &[&str]) -> String {
    use std::sync::mpsc;
    let n_threads = 3;
    let mut txs = Vec::new();
    let (rtx, rrx) = mpsc::channel::<String>();
    let mut handles = Vec::new();
    for _ in 0..n_threads {
        let (tx, rx) = mpsc::channel::<String>();
        let rtx = rtx.clone();
        txs.push(tx);
        handles.push(std::thread::spawn(move || {
            for cmd in rx {
                let kind = cmd.as_bytes()[0] as char;
                let rest = &cmd[1..];
                let out = match kind {
                    's' => { RoundingMode::set_default(mode_of(rest.parse().unwrap())); "ok".to_string() }
                    'g' => format!("{:?}", RoundingMode::default()),
                    'r' => { let d = Decimal::new_raw(rest.parse().unwrap(), 1); format!("{}", d.round(0).coefficient()) }
                    'w' => { let d = Decimal::new_raw(rest.parse().unwrap(), 1); let y = Decimal::new_raw(100000000000000000000000000000000000001_i128, 18);
                             format!("{}", d.mul_rounded(y, 18).coefficient()) }
                    'v' => { let k: i128 = rest.parse().unwrap(); let x = Decimal::new_raw(k * 10_i128.pow(37), 0); let y = Decimal::new_raw(4 * 10_i128.pow(37), 0);
                             format!("{}", x.div_rounded(y, 1).coefficient()) }
                    _ => "?".to_string(),
                };
                rtx.send(out).unwrap();
            }
        }));
    }
    let mut outs = Vec::new();
    for a in args {
        let t: usize = a[0..1].parse().unwrap();
        txs[t].send(a[1..].to_string()).unwrap();
        outs.push(rrx.recv().unwrap());
    }
    drop(txs);
    for h in handles { let _ = h.join(); }
    format!("SCHED {}", outs.join(" "))
}

fn fmt_dyn(d: Decimal, prec: Option<usize>, width: Option<usize>, flags: &str) -> String {
    // runtime-chosen format parameters: enumerate flag combinations statically
    let w = width.unwrap_or(0);
    macro_rules! f {
        ($spec:literal) => {
            match (prec, width) {
                (Some(p), Some(_)) => format!(concat!("{:", $spec, "w$.p$}"), d, w = w, p = p),
                (Some(p), None) => format!(concat!("{:", $spec, ".p$}"), d, p = p),
                (None, Some(_)) => format!(concat!("{:", $spec, "w$}"), d, w = w),
                (None, None) => format!(concat!("{:", $spec, "}"), d),
            }
        };
    }
    match flags {
        "" | "-" => f!(""),
        "<" => f!("<"),
        "^" => f!("^"),
        ">" => f!(">"),
        "0" => f!("0"),
        "+" => f!("+"),
        "+0" => f!("+0"),
        "*<" => f!("*<"),
        "*^" => f!("*^"),
        "*>" => f!("*>"),
        "#>" => f!("#>"),
        "<+" => f!("<+"),
        "^+" => f!("^+"),
        ">+" => f!(">+"),
        "*^+" => f!("*^+"),
        _ => "BADFLAGS".to_string(),
    }
}

fn run_line(line: &str) -> String {
    let toks: Vec<&str> = line.split_whitespace().collect();
    if toks.len() < 2 {
        return "BADLINE".to_string();
    }
    let mode: u8 = toks[0].parse().unwrap_or(5);
    let op = toks[1].to_string();
    let args: Vec<String> = toks[2..].iter().map(|s| s.to_string()).collect();
    let res = panic::catch_unwind(move || {
        RoundingMode::set_default(mode_of(mode));
        let a: Vec<&str> = args.iter().map(|s| s.as_str()).collect();
        match op.as_str() {
            "bin" => {
                // bin <op> <form> <lhs> <rhs> [n]
                let n: u8 = if a.len() > 4 { a[4].parse().unwrap() } else { 0 };
                binop(a[0], a[1], a[2], a[3], n)
            }
            _ => unop(op.as_str(), &a),
        }
    });
    match res {
        Ok(s) => s,
        Err(e) => {
            let msg = if let Some(s) = e.downcast_ref::<&str>() { s.to_string() } else if let Some(s) = e.downcast_ref::<String>() { s.clone() } else { "?".to_string() };
            format!("PANIC {}", msg.replace('\n', " "))
        }
    }
}

fn main() {
    panic::set_hook(Box::new(|_| {}));
    let argv: Vec<String> = std::env::args().collect();
    let out = io::stdout();
    let mut out = out.lock();
    if argv.len() > 1 {
        let line = argv[1..].join(" ");
        writeln!(out, "{}", run_line(&line)).unwrap();
        return;
    }
    let stdin = io::stdin();
    for line in stdin.lock().lines() {
        let line = line.unwrap();
        writeln!(out, "{}", run_line(&line)).unwrap();
        out.flush().unwrap();
    }
}
