"""C08 -- equality and ordering are by numeric value (Decimal/Decimal and Decimal/integer in both positions)."""
from .common import *
from . import divlib as DL

ID = "C08"
META = {
    "bounds": "all coefficient pairs |c| <= 2^127-1, all 19x19 scale pairs (incl. every pair whose alignment overflows i128), all 9 integer types over their "
              "whole range in both positions; eq, partial_cmp, cmp; loop-free",
    "outside_claim": ["<, <=, >, >=, min, max, != are core's default methods over partial_cmp / cmp / eq (documented behaviour of core, not re-verified)",
                      "reflexivity / antisymmetry / transitivity follow from agreement with the order of the rationals (stated, not separately encoded)",
                      "rkyv: the archived comparisons are macro instantiations of the same bodies; rkyv's serializer / validator are outside the claim "
                      "(the rkyv feature MIR is not re-checked in the quick tier)", "opt-level / LLVM"],
    "assumptions": ["builtin models listed in coverage.builtin_models"],
}


def configs(ctx):
    return [("dev", ["core", "main"])]


def cases(ctx):
    out = []
    pairs = [(p, q) for p in range(19) for q in range(19)]
    for meth in ("eq", "partial_cmp", "cmp"):
        for chunk in range(0, len(pairs), 60):
            out.append({"id": "%s|dec-dec|pairs%d" % (meth, chunk), "meth": meth, "lty": "Decimal", "rty": "Decimal", "pairs": pairs[chunk:chunk + 60], "weight": 20})
    for ty in INT9:
        for meth in ("eq", "partial_cmp"):
            out.append({"id": "%s|di:%s" % (meth, ty), "meth": meth, "lty": "Decimal", "rty": ty, "pairs": [(p, 0) for p in range(19)], "weight": 5})
            out.append({"id": "%s|id:%s" % (meth, ty), "meth": meth, "lty": ty, "rty": "Decimal", "pairs": [(0, q) for q in range(19)], "weight": 5})
    return out


def run_case(ctx, case):
    prog = ctx.program("dev")
    res = Res(case["id"])
    meth, lty, rty = case["meth"], case["lty"], case["rty"]
    ret = {"eq": "bool", "partial_cmp": "Option<Ordering>", "cmp": "Ordering"}[meth]
    f = get_fn(prog, meth, ["&" + lty, "&" + rty], ret)
    for (p, q) in [tuple(x) for x in case["pairs"]]:
        st = State()
        a, x, p_ = DL.operand(st, "x", lty, p, None, restrict=False)
        b, y, q_ = DL.operand(st, "y", rty, q, None, restrict=False)
        ex = new_executor(ctx, prog)
        outs = ex.explore(start_state(f, [ref_to(a), ref_to(b)], None, st))
        res.absorb(ex, outs)
        X = T.I(x) * 10 ** q_
        Y = T.I(y) * 10 ** p_
        for i, o in enumerate(outs):
            name = "%s|p=%d,q=%d|path%d:%s" % (case["id"], p_, q_, i, o.kind if o.kind == "return" else panic_class(o))
            if o.kind != "return":
                goal = False
            elif meth == "eq":
                goal = (T.B(o.value) == (X == Y))
            else:
                v = o.value
                if meth == "partial_cmp":
                    v = v.fields[0] if v.variant == 1 else None
                if v is None:
                    goal = False
                else:
                    goal = [X < Y, X == Y, X > Y][v.variant]
            r = res.vc(ctx, name, o.state.constraints(), goal, {"x": x, "y": y}, {"p": p_, "q": q_, "meth": meth, "lty": lty, "rty": rty})
            if i == 0 and (p + q) % 13 == 0:
                res.sample({"vc": name, "status": r.status, "time_s": round(r.time, 4)})
    return res.done()


def replay(ctx, native, v):
    info = v["info"]
    x, y = v["inputs"]["x"], v["inputs"]["y"]
    lty, rty, p, q, meth = info["lty"], info["rty"], info["p"], info["q"], info["meth"]
    lhs = fmt_dec(x, p) if lty == "Decimal" else "%s:%d" % (lty, x)
    rhs = fmt_dec(y, q) if rty == "Decimal" else "%s:%d" % (rty, y)
    line = "5 bin %s vv %s %s" % ({"eq": "eq", "partial_cmp": "pcmp", "cmp": "cmp"}[meth], lhs, rhs)
    obs = parse_native(native["dev"].ask(line))
    X, Y = x * 10 ** q, y * 10 ** p
    if meth == "eq":
        exp = ("BOOL", X == Y)
    else:
        exp = ("ORD", "Less" if X < Y else "Equal" if X == Y else "Greater")
    return {"reproduced": obs != exp, "line": line, "observed": obs, "expected": exp, "profile": "dev"}


def confirm_known(ctx, native, ent):
    return False


def cosim(ctx, native):
    import random
    rng = random.Random(ctx.seed + 808)
    prog = ctx.program("dev")
    n = 0
    bv = [0, 1, -1, 10, MAXC, -MAXC, MAXC // 10, MAXC // 10 + 1, 10 ** 18, 10 ** 37, 17, 170]
    f = get_fn(prog, "partial_cmp", ["&Decimal", "&Decimal"], "Option<Ordering>")
    for _ in range(200):
        x = rng.choice(bv + [rng.randint(-MAXC, MAXC), rng.randint(-10 ** 20, 10 ** 20)])
        y = rng.choice(bv + [x, x * 10, x * 100, rng.randint(-MAXC, MAXC)])
        if abs(y) > MAXC:
            y = x
        p, q = rng.randint(0, 18), rng.randint(0, 18)
        ex = new_executor(ctx, prog)
        outs = ex.explore(start_state(f, [ref_to(decimal(IV(x, "i128"), IV(p, "u8"))), ref_to(decimal(IV(y, "i128"), IV(q, "u8")))]))
        assert len(outs) == 1
        v = outs[0].value
        mine = ("ORD", ["Less", "Equal", "Greater"][v.fields[0].variant]) if v.variant == 1 else ("ORD", "None")
        obs = parse_native(native["dev"].ask("5 bin pcmp vv %s %s" % (fmt_dec(x, p), fmt_dec(y, q))))
        if obs != mine:
            raise RuntimeError("MIR interpreter %r vs native %r" % (mine, obs))
        n += 1
    return n
