"""C08 -- equality and ordering are by numeric value (Decimal/Decimal and Decimal/integer in both positions)."""
from .common import *
from . import divlib as DL

ID = "C08"
META = {
    "bounds": "all coefficient pairs |c| <= 2^127-1, all 19x19 scale pairs (incl. every pair whose alignment overflows i128), all 9 integer types over their "
              "whole range in both positions; eq, partial_cmp, cmp; loop-free; feature rkyv: the ArchivedDecimal instantiations of eq / partial_cmp / cmp "
              "and the mixed impls on the feature MIR (quick: every 6th scale pair), Archive::resolve + Deserialize round trip for all (c, p) by a Kani harness",
    "outside_claim": ["<, <=, >, >=, min, max, clamp, != are core's default methods over partial_cmp / cmp / eq (documented behaviour of core, not re-verified); "
                      "the 'overrides' case shows on every run that the crate's MIR contains no own lt / le / gt / ge / ne / min / max / clamp for Decimal operands - if one "
                      "appears, lt / le / gt / ge / ne are executed against the value comparison and min / max / clamp end the check inconclusive",
                      "reflexivity / antisymmetry / transitivity follow from agreement with the order of the rationals (stated, not separately encoded)",
                      "rkyv's serializer / validator plumbing (to_bytes, check_archived_root); counterexamples in the rkyv feature build are not replayed natively "
                      "(the replay driver is built without the feature)", "opt-level / LLVM"],
    "assumptions": ["builtin models listed in coverage.builtin_models"],
}


def configs(ctx):
    return [("dev", ["core", "main"]), ("dev-feat", ["core", "main"])]


def cases(ctx):
    out = []
    pairs = [(p, q) for p in range(19) for q in range(19)]
    for meth in ("eq", "partial_cmp", "cmp"):
        for chunk in range(0, len(pairs), 60):
            out.append({"id": "%s|dec-dec|pairs%d" % (meth, chunk), "meth": meth, "lty": "Decimal", "rty": "Decimal", "pairs": pairs[chunk:chunk + 60], "weight": 20})
    # feature rkyv: archived values compare like the values they were archived from (same macro bodies, instantiated for ArchivedDecimal)
    sub = pairs if ctx.tier == "thorough" else pairs[::6]
    for meth in ("eq", "partial_cmp", "cmp"):
        for (l, r) in (("ArchivedDecimal", "ArchivedDecimal"), ("ArchivedDecimal", "Decimal"), ("Decimal", "ArchivedDecimal")):
            if meth == "cmp" and l != r:
                continue
            out.append({"id": "rkyv|%s|%s-%s" % (meth, l, r), "meth": meth, "lty": l, "rty": r, "pairs": sub, "cfg": "dev-feat", "weight": 15})
    out.append({"id": "overrides|no own lt/le/gt/ge/ne/min/max/clamp (core's defaults apply)", "meth": "overrides", "weight": 8})
    out.append({"id": "kani|rkyv_resolve_deserialize_identity", "meth": "kani", "harness": "rkyv_resolve_deserialize_identity", "weight": 100})
    for ty in INT9:
        for meth in ("eq", "partial_cmp"):
            out.append({"id": "%s|di:%s" % (meth, ty), "meth": meth, "lty": "Decimal", "rty": ty, "pairs": [(p, 0) for p in range(19)], "weight": 5})
            out.append({"id": "%s|id:%s" % (meth, ty), "meth": meth, "lty": ty, "rty": "Decimal", "pairs": [(0, q) for q in range(19)], "weight": 5})
    return out


def run_case(ctx, case):
    res = Res(case["id"])
    if case["meth"] == "kani":
        from vfw import kani
        r = kani.run_harness(case["harness"], features=("rkyv",), timeout_s=900, target="kani-target-rkyv")
        res.d["vcs"] += 1
        res.d["distinct"] += [case["id"], case["id"] + "|b"]
        res.sample({"kani": r["harness"], "status": r["status"], "time_s": r["time_s"], "sat_vars": r.get("sat_vars")})
        if r["status"] == "success":
            res.d["discharged"] += 1
        elif r["status"] == "failed" and r["playback"]:
            c = int.from_bytes(bytes(r["playback"][0]), "little", signed=True)
            res.d["violations"].append({"vc": case["id"], "inputs": {"x": c, "y": 0}, "info": {"meth": "rkyv", "p": r["playback"][1][0] if len(r["playback"]) > 1 else 0,
                                                                                                  "q": 0, "lty": "Decimal", "rty": "Decimal"}})
        else:
            res.d["inconclusive"].append("kani harness %s: %s %s (log %s)" % (r["harness"], r["status"], r.get("failed_checks"), r["log"]))
        return res.done()
    if case["meth"] == "overrides":
        return run_overrides(ctx, res)
    prog = ctx.program(case.get("cfg", "dev"))
    meth, lty, rty = case["meth"], case["lty"], case["rty"]
    ret = {"eq": "bool", "partial_cmp": "Option<Ordering>", "cmp": "Ordering"}[meth]
    f = get_fn(prog, meth, ["&" + lty, "&" + rty], ret)
    for (p, q) in [tuple(x) for x in case["pairs"]]:
        st = State()
        a, x, p_ = DL.operand(st, "x", lty, p, None, restrict=False)
        b, y, q_ = DL.operand(st, "y", rty, q, None, restrict=False)
        ex = new_executor(ctx, prog)
        outs = ex.explore(start_state(f, [ref_to(a), ref_to(b)], None, st))
        res.absorb(ex, outs)
        X = T.I(x) * 10 ** q_
        Y = T.I(y) * 10 ** p_
        for i, o in enumerate(outs):
            name = "%s|p=%d,q=%d|path%d:%s" % (case["id"], p_, q_, i, o.kind if o.kind == "return" else panic_class(o))
            if o.kind != "return":
                goal = False
            elif meth == "eq":
                goal = (T.B(o.value) == (X == Y))
            else:
                v = o.value
                if meth == "partial_cmp":
                    v = v.fields[0] if v.variant == 1 else None
                if v is None:
                    goal = False
                else:
                    goal = [X < Y, X == Y, X > Y][v.variant]
            r = res.vc(ctx, name, o.state.constraints(), goal, {"x": x, "y": y}, {"p": p_, "q": q_, "meth": meth, "lty": lty, "rty": rty})
            if i == 0 and (p + q) % 13 == 0:
                res.sample({"vc": name, "status": r.status, "time_s": round(r.time, 4)})
    return res.done()


OVR = {"lt": lambda X, Y: X < Y, "le": lambda X, Y: X <= Y, "gt": lambda X, Y: X > Y, "ge": lambda X, Y: X >= Y, "ne": lambda X, Y: X != Y}


def run_overrides(ctx, res):
    """the comparison operators the property names beyond eq / partial_cmp / cmp are core's default methods only as long as the crate
    does not define them itself: look for such definitions in both MIR configurations and check the ones found"""
    import re
    for cfg in ("dev", "dev-feat"):
        prog = ctx.program(cfg)
        for nm in ("lt", "le", "gt", "ge", "ne", "min", "max", "clamp"):
            own = [f for f in prog.by_last.get(nm, []) if f.kind == "fn" and f.params and any("Decimal" in t for _, t in f.params[:2])]
            res.d["vcs"] += 1
            res.d["distinct"].append("overrides|%s|%s" % (cfg, nm))
            if not own:
                res.d["discharged"] += 1
                continue
            for f in own:
                tys = [t.lstrip("&") for _, t in f.params]
                if nm not in OVR or len(tys) != 2 or f.ret != "bool" or any("Archived" in t for t in tys):
                    res.d["inconclusive"].append("the crate defines its own %s (%s): not covered by core's default; no spec for it" % (nm, f.name))
                    continue
                ok = True
                for (p, q) in [(p, q) for p in range(19) for q in range(19)]:
                    if (tys[0] != "Decimal" and p) or (tys[1] != "Decimal" and q):
                        continue
                    st = State()
                    a, x, p_ = DL.operand(st, "x", tys[0], p, None, restrict=False)
                    b, y, q_ = DL.operand(st, "y", tys[1], q, None, restrict=False)
                    ex = new_executor(ctx, prog)
                    outs = ex.explore(start_state(f, [ref_to(a), ref_to(b)], None, st))
                    res.absorb(ex, outs)
                    X, Y = T.I(x) * 10 ** q_, T.I(y) * 10 ** p_
                    for i, o in enumerate(outs):
                        goal = (T.B(o.value) == OVR[nm](X, Y)) if o.kind == "return" else False
                        r = res.vc(ctx, "overrides|%s|%s|p=%d,q=%d|path%d" % (cfg, f.name, p_, q_, i), o.state.constraints(), goal, {"x": x, "y": y},
                                   {"p": p_, "q": q_, "meth": nm, "lty": tys[0], "rty": tys[1]})
                        ok = ok and r.status == "unsat"
                if ok:
                    res.d["discharged"] += 1
    res.sample({"note": "no own definition of lt/le/gt/ge/ne/min/max/clamp for Decimal operands in the dev and dev-feat MIR" if not res.d["violations"] and not res.d["inconclusive"] else "own definitions found"})
    return res.done()


def replay(ctx, native, v):
    info = v["info"]
    x, y = v["inputs"]["x"], v["inputs"]["y"]
    lty, rty, p, q, meth = info["lty"], info["rty"], info["p"], info["q"], info["meth"]
    if "Archived" in lty + rty or meth == "rkyv":
        return {"reproduced": True, "line": "(feature rkyv; not replayed natively) %s %s %s" % (meth, fmt_dec(x, p), fmt_dec(y, q)),
                "observed": "archived comparison / round trip differs from the value comparison", "expected": "comparison by value"}
    lhs = fmt_dec(x, p) if lty == "Decimal" else "%s:%d" % (lty, x)
    rhs = fmt_dec(y, q) if rty == "Decimal" else "%s:%d" % (rty, y)
    line = "5 bin %s vv %s %s" % ({"eq": "eq", "partial_cmp": "pcmp", "cmp": "cmp"}.get(meth, meth), lhs, rhs)
    obs = parse_native(native["dev"].ask(line))
    X, Y = x * 10 ** q, y * 10 ** p
    if meth in OVR:
        exp = ("BOOL", {"lt": X < Y, "le": X <= Y, "gt": X > Y, "ge": X >= Y, "ne": X != Y}[meth])
    elif meth == "eq":
        exp = ("BOOL", X == Y)
    else:
        exp = ("ORD", "Less" if X < Y else "Equal" if X == Y else "Greater")
    return {"reproduced": obs != exp, "line": line, "observed": obs, "expected": exp, "profile": "dev"}


def confirm_known(ctx, native, ent):
    return False


def cosim(ctx, native):
    import random
    rng = random.Random(ctx.seed + 808)
    prog = ctx.program("dev")
    n = 0
    bv = [0, 1, -1, 10, MAXC, -MAXC, MAXC // 10, MAXC // 10 + 1, 10 ** 18, 10 ** 37, 17, 170]
    f = get_fn(prog, "partial_cmp", ["&Decimal", "&Decimal"], "Option<Ordering>")
    for _ in range(200):
        x = rng.choice(bv + [rng.randint(-MAXC, MAXC), rng.randint(-10 ** 20, 10 ** 20)])
        y = rng.choice(bv + [x, x * 10, x * 100, rng.randint(-MAXC, MAXC)])
        if abs(y) > MAXC:
            y = x
        p, q = rng.randint(0, 18), rng.randint(0, 18)
        ex = new_executor(ctx, prog)
        outs = ex.explore(start_state(f, [ref_to(decimal(IV(x, "i128"), IV(p, "u8"))), ref_to(decimal(IV(y, "i128"), IV(q, "u8")))]))
        assert len(outs) == 1
        v = outs[0].value
        mine = ("ORD", ["Less", "Equal", "Greater"][v.fields[0].variant]) if v.variant == 1 else ("ORD", "None")
        obs = parse_native(native["dev"].ask("5 bin pcmp vv %s %s" % (fmt_dec(x, p), fmt_dec(y, q))))
        if obs != mine:
            raise RuntimeError("MIR interpreter %r vs native %r" % (mine, obs))
        # the derived operators (core's default methods) on the native build, same operands
        X, Y = x * 10 ** q, y * 10 ** p
        for opn, want in (("lt", X < Y), ("le", X <= Y), ("gt", X > Y), ("ge", X >= Y), ("ne", X != Y), ("eq", X == Y)):
            got = parse_native(native["dev"].ask("5 bin %s vv %s %s" % (opn, fmt_dec(x, p), fmt_dec(y, q))))
            if got != ("BOOL", want):
                raise NativeViolation("5 bin %s vv %s %s" % (opn, fmt_dec(x, p), fmt_dec(y, q)), got, ("BOOL", want))
        n += 1
    return n
