"""C16 -- results stay correct when intermediates exceed 128 bits (kernel obligations K0-K4)."""
from .common import *
from . import kernels as K

ID = "C16"
META = {
    "bounds": "K1 all u128 x u128; K2a all 256-bit dividends, divisors 1..2^64-1; K2b all (xh<y, xl) per normalisation shift "
              "(quick: 10 shifts, thorough: all 64), correction loops unrolled 3 with unwinding assertion; K2c dispatch; "
              "K3 all i128 x1,x2 / x, k in 0..=38, all m in 1..2^127-1; K4 all 8 modes",
    "outside_claim": ["opt-level / LLVM", "for K2b the unsat verdict rests on z3 5.1 alone (cvc5 1.0.3 and z3 4.8 do not finish it)"],
    "assumptions": ["builtin models listed in coverage.builtin_models",
                    "kernel contracts are used compositionally: K3/K4 rely on K1/K2, which are discharged in the same run"],
}
B128 = 1 << 128
SIGNS2 = ("++", "+-", "-+", "--")


def sgn(st, term, ch):
    st.assume_sign(term, ch == "+")


def configs(ctx):
    return [("dev", ["core"])]


def shifts(ctx):
    if True:      # with the proved stepping-stone lemmas a shift costs ~10 s: all 64 in both tiers
        return list(range(64))
    must = [0, 1, 31, 32, 62, 63]
    rng = __import__("random").Random(ctx.seed)
    rest = [s for s in range(64) if s not in must]
    rng.shuffle(rest)
    return sorted(must + rest[:4])


def cases(ctx):
    out = [{"id": "K0|u128_msb", "kind": "K0", "weight": 30},
           {"id": "K1|u128_mul_u128", "kind": "K1", "weight": 5},
           {"id": "K2a|u256_idiv_u64", "kind": "K2a", "weight": 5},
           {"id": "K2c|u256_idiv_u128 dispatch", "kind": "K2c", "weight": 5}]
    for s in shifts(ctx):
        out.append({"id": "K2b|u256_idiv_u128_special|shift=%d" % s, "kind": "K2b", "shift": s, "weight": 100})
    for sg in SIGNS2:
        out.append({"id": "K3|i256_div_mod_floor|m symbolic|signs=%s" % sg, "kind": "K3a", "p": None, "signs": sg, "weight": 50})
        for p in range(0, 39):
            out.append({"id": "K3|i256_div_mod_floor|m=10^%d|signs=%s" % (p, sg), "kind": "K3a", "p": p, "signs": sg, "weight": 10})
    for sg in ("+", "-"):
        for k in range(0, 39):
            out.append({"id": "K3|i128_shifted_div_mod_floor|k=%d|signs=%s" % (k, sg), "kind": "K3b", "k": k, "signs": sg, "weight": 20})
    for mode in range(8):
        for sg in SIGNS2:
            ps = range(1, 39) if ctx.tier == "thorough" else [1, 2, 3, 17, 18, 19, 20, 36, 37, 38]
            for p in ps:
                out.append({"id": "K4|i128_mul_div_ten_pow_rounded|mode=%d|p=%d|signs=%s" % (mode, p, sg), "kind": "K4a", "mode": mode, "p": p, "signs": sg, "weight": 10})
            ks = range(0, 39) if ctx.tier == "thorough" else [0, 1, 2, 17, 18, 19, 20, 36, 37, 38]
            for k in ks:
                out.append({"id": "K4|i128_shifted_div_rounded|mode=%d|k=%d|signs=%s" % (mode, k, sg), "kind": "K4b", "mode": mode, "k": k, "signs": sg, "weight": 20})
    return out


def knuth_lemmas(ex, st, fr):
    """stepping stones for the Knuth division proof; each is PROVED from the path constraints before it
    is assumed (Executor.apply_lemmas), so they cannot make a wrong kernel pass"""
    g = lambda n: ex.local_by_name(st, fr, n).t
    B = 1 << 64
    y, yn1, yn0 = g("y"), g("yn1"), g("yn0")
    xn32, xn1, xn0 = g("xn32"), g("xn1"), g("xn0")
    q1, rhat = g("q1"), g("rhat")
    out = []
    try:
        q0 = g("q0")
        t = g("t")
    except Exception:
        q0 = None
    if q0 is None:
        out.append(("L1a: q1*yn1 + rhat = xn32", T.I(q1) * yn1 + rhat == xn32))
        out.append(("L1b: q1 < 2^64", T.I(q1) < B))
        out.append(("L1c: q1*y <= xn32*2^64 + xn1", T.I(q1) * y <= T.I(xn32) * B + xn1))
        out.append(("L1d: xn32*2^64 + xn1 - q1*y < y", T.I(xn32) * B + xn1 - T.I(q1) * y < y))
    else:
        out.append(("L2t: t = xn32*2^64 + xn1 - q1*y", T.I(t) == T.I(xn32) * B + xn1 - T.I(q1) * y))
        out.append(("L2a: q0*yn1 + rhat = t", T.I(q0) * yn1 + rhat == t))
        out.append(("L2b: q0 < 2^64", T.I(q0) < B))
        out.append(("L2c: q0*y <= t*2^64 + xn0", T.I(q0) * y <= T.I(t) * B + xn0))
        out.append(("L2d: t*2^64 + xn0 - q0*y < y", T.I(t) * B + xn0 - T.I(q0) * y < y))
    return out


def cells(st, xh, xl):
    st.heap[("cell", "xh")] = xh
    st.heap[("cell", "xl")] = xl
    return RefV(box=("cell", "xh")), RefV(box=("cell", "xl"))


def run_case(ctx, case):
    prog = ctx.program("dev", ("core",))
    res = Res(case["id"])
    kind = case["kind"]
    tmo = max(ctx.timeout_ms, 600000 if kind == "K2b" else 120000)
    if kind == "K0":
        f = get_fn(prog, "u128_msb", ["u128"], "u8")
        for k in range(128):
            st = State()
            x = sym_int("x", "u128", st, lo=1 << k, hi=(1 << (k + 1)) - 1)
            ex = new_executor(ctx, prog)
            outs = ex.explore(start_state(f, [x], st=st))
            res.absorb(ex, outs)
            for i, o in enumerate(outs):
                goal = T.B(T.eq(o.value.t, k)) if o.kind == "return" else False
                res.vc(ctx, "%s|k=%d|path%d" % (case["id"], k, i), o.state.constraints(), goal, {"x": x.t}, {"k": k, "kind": "K0"})
        return res.done()
    if kind == "K1":
        f = get_fn(prog, "u128_mul_u128", ["u128", "u128"])
        st = State()
        x = sym_int("x", "u128", st)
        y = sym_int("y", "u128", st)
        ex = new_executor(ctx, prog)
        outs = ex.explore(start_state(f, [x, y], st=st))
        res.absorb(ex, outs)
        for i, o in enumerate(outs):
            if o.kind == "return":
                hi, lo = o.value.fields[0].t, o.value.fields[1].t
                goal = z3.And(hi * B128 + lo == x.t * y.t, T.in_range(hi, "u128"), T.in_range(lo, "u128"))
            else:
                goal = False
            r = res.vc(ctx, "%s|path%d:%s" % (case["id"], i, o.kind), o.state.constraints(), goal, {"x": x.t, "y": y.t}, {"kind": "K1"}, tmo)
            res.sample({"vc": case["id"], "status": r.status, "time_s": round(r.time, 3)})
            # reachability witness: the same VC with a false goal must be refutable
            w = check_vc(o.state.constraints(), False, 10000)
            if w.status != "sat":
                res.d["inconclusive"].append("vacuity witness for K1 not sat: %s" % w.status)
        return res.done()
    if kind in ("K2a", "K2b", "K2c"):
        st = State()
        xh = sym_int("xh", "u128", st)
        xl = sym_int("xl", "u128", st)
        contracts = {}
        merge = ()
        unwind = 40
        if kind == "K2a":
            f = get_fn(prog, "u256_idiv_u64", ["&mut u128", "&mut u128", "u64"])
            y = sym_int("y", "u64", st, lo=1)
        elif kind == "K2b":
            sh = case["shift"]
            f = get_fn(prog, "u256_idiv_u128_special", ["&mut u128", "&mut u128", "u128"])
            y = sym_int("y", "u128", st, lo=1 << (127 - sh), hi=(1 << (128 - sh)) - 1)
            st.defs.append(xh.t < y.t)

            def msb(ex, st_, fr, callee, args, sh=sh):
                BI._use("CONTRACT u128_msb(y) = floor(log2 y) (obligation C16/K0)")
                if not ex.proves(st_, z3.And(args[0].t >= (1 << (127 - sh)), args[0].t < (1 << (128 - sh))), 5000):
                    raise Unsupported("u128_msb contract: range of argument not provable")
                return IV(127 - sh, "u8")
            contracts["u128_msb"] = msb
            merge = ("u256_idiv_u128_special",)
            unwind = 4
        else:
            f = get_fn(prog, "u256_idiv_u128", ["&mut u128", "&mut u128", "u128"])
            y = sym_int("y", "u128", st, lo=1)
            contracts["u256_idiv_u64"] = K.c_u256_idiv_u64
            contracts["u256_idiv_u128_special"] = K.c_u256_idiv_u128_special
        a, b = cells(st, xh, xl)
        ex = new_executor(ctx, prog, contracts=contracts, merge_fns=merge, unwind=unwind)
        if kind == "K2b":
            ex.lemma_hooks["u256_idiv_u128_special"] = knuth_lemmas
        outs = ex.explore(start_state(f, [a, b, y], st=st))
        res.absorb(ex, outs)
        if ex.lemma_log:
            res.d.setdefault("lemmas", []).extend(ex.lemma_log)
            res.sample({"vc": case["id"], "lemmas": ex.lemma_log})
        for i, o in enumerate(outs):
            if o.kind == "return":
                qh = o.state.heap[("cell", "xh")].t
                ql = o.state.heap[("cell", "xl")].t
                r = o.value.t
                goal = z3.And((xh.t * B128 + xl.t) == (T.I(qh) * B128 + T.I(ql)) * y.t + r, r >= 0, r < y.t,
                              T.B(T.in_range(qh, "u128")), T.B(T.in_range(ql, "u128")))
            else:
                goal = False     # no panic (overflow, unwinding bound, debug_assert) may be reachable
            r_ = res.vc(ctx, "%s|path%d:%s" % (case["id"], i, o.kind if o.kind == "return" else panic_class(o)),
                        o.state.pruned_constraints(goal), goal, {"xh": xh.t, "xl": xl.t, "y": y.t}, {"kind": kind}, tmo)
            res.sample({"vc": case["id"], "path": i, "status": r_.status, "time_s": round(r_.time, 2)})
            if o.kind == "return" and kind == "K2b":
                sh = case["shift"]
                yv = (1 << (127 - sh)) + 12345678901234567890 % (1 << (127 - sh))
                res.witness(ctx, case["id"], o.state.constraints(), [(xh.t, yv - 1), (xl.t, (1 << 128) - 1), (y.t, yv)])
        return res.done()
    if kind in ("K3a", "K3b"):
        st = State()
        if kind == "K3a":
            f = get_fn(prog, "i256_div_mod_floor", ["i128", "i128", "i128"])
            x1 = sym_int("x1", "i128", st, lo=-MAXC)
            x2 = sym_int("x2", "i128", st, lo=-MAXC)
            sgn(st, x1.t, case["signs"][0])
            sgn(st, x2.t, case["signs"][1])
            if case["p"] is None:
                m = sym_int("m", "i128", st, lo=1)
            else:
                m = IV(10 ** case["p"], "i128")
            args = [x1, x2, m]
            P = x1.t * x2.t
            inputs = {"x1": x1.t, "x2": x2.t, "m": m.t}
            mt = m.t
            sign_m = 1
        else:
            f = get_fn(prog, "i128_shifted_div_mod_floor", ["i128", "u8", "i128"])
            x = sym_int("x", "i128", st, lo=-MAXC)
            m = sym_int("m", "i128", st, lo=1)      # C16: "for every positive m"
            sgn(st, x.t, case["signs"][0])
            sgn(st, m.t, "+")
            k = case["k"]
            args = [x, IV(k, "u8"), m]
            P = x.t * 10 ** k
            inputs = {"x": x.t, "m": m.t}
            mt = m.t
        ex = new_executor(ctx, prog, contracts=K.WIDE_CONTRACTS)
        outs = ex.explore(start_state(f, args, st=st))
        res.absorb(ex, outs)
        for i, o in enumerate(outs):
            name = "%s|path%d:%s" % (case["id"], i, o.kind if o.kind == "return" else panic_class(o))
            cons = o.state.constraints()
            extra = []
            if o.kind == "return" and o.value.variant == 1:
                q, r = o.value.fields[0].fields[0].t, o.value.fields[0].fields[1].t
                if kind == "K3a":
                    goal = z3.And(P == q * T.I(mt) + r, r >= 0, r < T.I(mt))
                else:
                    # remainder has the sign of the divisor (floor division)
                    goal = z3.And(P == q * mt + r, z3.If(mt > 0, z3.And(r >= 0, r < mt), z3.And(r <= 0, r > mt)))
            elif o.kind == "return":
                # None <=> the floor quotient does not fit i128; spec's own fresh (qs, rs)
                qs, rs = T.fresh_int("qs"), T.fresh_int("rs")
                if kind == "K3a":
                    extra = [P == qs * T.I(mt) + rs, rs >= 0, rs < T.I(mt)]
                else:
                    extra = [P == qs * mt + rs, z3.If(mt > 0, z3.And(rs >= 0, rs < mt), z3.And(rs <= 0, rs > mt))]
                goal = z3.Not(T.in_range(qs, "i128")) if True else False
                # the implementation reports None for |q| > i128::MAX, i.e. also for q = i128::MIN:
                goal = z3.Or(qs > I128_MAX, qs <= I128_MIN)
            else:
                goal = False
            r_ = res.vc(ctx, name, cons + extra, goal, inputs, {"kind": kind, "k": case.get("k"), "p": case.get("p")}, tmo)
            if i < 2:
                res.sample({"vc": name, "status": r_.status, "time_s": round(r_.time, 3)})
        return res.done()
    if kind in ("K4a", "K4b"):
        mode = case["mode"]
        st = State()
        if kind == "K4a":
            f = get_fn(prog, "i128_mul_div_ten_pow_rounded", ["i128", "i128", "u8", "Option<RoundingMode>"])
            x = sym_int("x", "i128", st, lo=-MAXC)
            y = sym_int("y", "i128", st, lo=-MAXC)
            sgn(st, x.t, case["signs"][0])
            sgn(st, y.t, case["signs"][1])
            p = case["p"]
            args = [x, y, IV(p, "u8"), EnumV("Option", 0)]
            N = x.t * y.t
            D = 10 ** p
            inputs = {"x": x.t, "y": y.t}
        else:
            f = get_fn(prog, "i128_shifted_div_rounded", ["i128", "u8", "i128", "Option<RoundingMode>"])
            x = sym_int("x", "i128", st, lo=-MAXC)
            d = sym_int("d", "i128", st, lo=-MAXC)
            st.defs.append(d.t != 0)
            sgn(st, x.t, case["signs"][0])
            sgn(st, d.t, case["signs"][1])
            k = case["k"]
            args = [x, IV(k, "u8"), d, EnumV("Option", 0)]
            dneg = case["signs"][1] == "-"
            N = (-x.t if dneg else x.t) * 10 ** k
            D = -d.t if dneg else d.t
            inputs = {"x": x.t, "d": d.t}
        ex = new_executor(ctx, prog, mode=mode, contracts=K.WIDE_CONTRACTS)
        outs = ex.explore(start_state(f, args, st=st))
        res.absorb(ex, outs)
        for i, o in enumerate(outs):
            name = "%s|path%d:%s" % (case["id"], i, o.kind if o.kind == "return" else panic_class(o))
            extra = []
            if o.kind == "return" and o.value.variant == 1:
                goal = rnd_rel(mode, N, D, o.value.fields[0].t)
            elif o.kind == "return":
                # None is required when the rounded quotient is outside i128 and tolerated when it is
                # exactly i128::MIN (outside Decimal::MIN..=Decimal::MAX; the kernels document |q| <= i128::MAX)
                rr = T.fresh_int("rr")
                extra = [rnd_rel(mode, N, D, rr)]
                goal = z3.Or(rr > I128_MAX, rr <= I128_MIN)
            else:
                goal = False
            r_ = res.vc(ctx, name, o.state.constraints() + extra, goal, inputs,
                        {"kind": kind, "mode": mode, "k": case.get("k"), "p": case.get("p")}, tmo)
            if i < 1:
                res.sample({"vc": name, "status": r_.status, "time_s": round(r_.time, 3)})
        return res.done()
    raise Unsupported("case kind " + kind)


def floor_divmod(a, b):
    q, r = divmod(a, b)
    return q, r


def replay(ctx, native, v):
    info = v["info"]
    kind = info.get("kind")
    i = v["inputs"]
    nat = native["dev"]
    if kind == "K3a":
        line = "5 k_i256_div_mod_floor %d %d %d" % (i["x1"], i["x2"], i["m"])
        obs = parse_native(nat.ask(line))
        q, r = divmod(i["x1"] * i["x2"], i["m"])
        exp = ("PAIR", q, r) if -I128_MAX <= q <= I128_MAX else ("NONE",)
        return {"reproduced": obs != exp, "line": line, "observed": obs, "expected": exp, "profile": "dev"}
    if kind == "K3b":
        line = "5 k_shifted_div_mod_floor %d %d %d" % (i["x"], info["k"], i["m"])
        obs = parse_native(nat.ask(line))
        q, r = divmod(i["x"] * 10 ** info["k"], i["m"])
        exp = ("PAIR", q, r) if -I128_MAX <= q <= I128_MAX else ("NONE",)
        return {"reproduced": obs != exp, "line": line, "observed": obs, "expected": exp, "profile": "dev"}
    if kind == "K4a":
        line = "%d k_mul_div_ten_pow_rounded %d %d %d" % (info["mode"], i["x"], i["y"], info["p"])
        obs = parse_native(nat.ask(line))
        c = rnd_conc(info["mode"], i["x"] * i["y"], 10 ** info["p"])
        exp = ("INT", c) if I128_MIN <= c <= I128_MAX else ("NONE",)
        if c == I128_MIN and obs == ("NONE",):
            exp = obs
        return {"reproduced": obs != exp, "line": line, "observed": obs, "expected": exp, "profile": "dev"}
    if kind == "K4b":
        line = "%d k_shifted_div_rounded %d %d %d" % (info["mode"], i["x"], info["k"], i["d"])
        obs = parse_native(nat.ask(line))
        N, D = i["x"] * 10 ** info["k"], i["d"]
        if D < 0:
            N, D = -N, -D
        c = rnd_conc(info["mode"], N, D)
        exp = ("INT", c) if I128_MIN <= c <= I128_MAX else ("NONE",)
        if c == I128_MIN and obs == ("NONE",):
            exp = obs
        return {"reproduced": obs != exp, "line": line, "observed": obs, "expected": exp, "profile": "dev"}
    # K0-K2 are private functions: replayed through the cfg(fpdec_verif) hooks of fpdec-core
    if kind in ("K2a", "K2b", "K2c"):
        op = {"K2a": "h_idiv64", "K2b": "h_special", "K2c": "h_idiv"}[kind]
        line = "5 %s %d %d %d" % (op, i["xh"], i["xl"], i["y"])
        obs = nat.ask(line)
        X = (i["xh"] << 128) + i["xl"]
        Q, r = divmod(X, i["y"])
        exp = "TRIPLE %d %d %d" % (Q >> 128, Q & ((1 << 128) - 1), r)
        return {"reproduced": obs != exp, "line": line, "observed": obs, "expected": exp, "profile": "dev"}
    if kind == "K1":
        line = "5 h_mul %d %d" % (i["x"], i["y"])
        obs = nat.ask(line)
        P = i["x"] * i["y"]
        exp = "PAIRU %d %d" % (P >> 128, P & ((1 << 128) - 1))
        return {"reproduced": obs != exp, "line": line, "observed": obs, "expected": exp, "profile": "dev"}
    if kind == "K0":
        line = "5 h_msb %d" % i["x"]
        obs = nat.ask(line)
        exp = "INT %d" % (i["x"].bit_length() - 1)
        return {"reproduced": obs != exp, "line": line, "observed": obs, "expected": exp, "profile": "dev"}
    return {"reproduced": False, "line": "", "observed": "no replay for " + str(kind), "expected": ""}


def confirm_known(ctx, native, ent):
    w = ent.get("witness")
    return bool(w) and native["dev"].ask(w["line"]) == w["observed"]


def cosim(ctx, native):
    import random
    rng = random.Random(ctx.seed + 1616)
    prog = ctx.program("dev", ("core",))
    f1 = get_fn(prog, "i256_div_mod_floor", ["i128", "i128", "i128"])
    f2 = get_fn(prog, "i128_shifted_div_mod_floor", ["i128", "u8", "i128"])
    n = 0
    big = [MAXC, -MAXC, (1 << 64) + 1, (1 << 64) - 1, 1 << 100, 10 ** 20, -10 ** 20, 36893488147419103235, -36893488147419103230, 3, -7, 1]
    for _ in range(120):
        x1 = rng.choice(big + [rng.randint(-MAXC, MAXC)])
        x2 = rng.choice(big + [rng.randint(-MAXC, MAXC)])
        m = rng.choice([10 ** rng.randint(0, 38), rng.randint(1, MAXC), rng.randint(1, 1 << 64), (1 << 64) + rng.randint(0, 99), (1 << rng.randint(64, 126)) + rng.randint(0, 1 << 60)])
        for (f, args, line, what) in (
                (f1, [IV(x1, "i128"), IV(x2, "i128"), IV(m, "i128")], "5 k_i256_div_mod_floor %d %d %d" % (x1, x2, m), "i256"),
                (f2, [IV(x1, "i128"), IV(abs(x2) % 39, "u8"), IV(m * rng.choice([1, -1]), "i128")], None, "shifted")):
            if line is None:
                line = "5 k_shifted_div_mod_floor %d %d %d" % (args[0].t, args[1].t, args[2].t)
            ex = new_executor(ctx, prog)
            outs = ex.explore(start_state(f, args))
            assert len(outs) == 1, outs
            o = outs[0]
            if o.kind == "panic":
                mine = ("PANIC",)
            elif o.value.variant == 0:
                mine = ("NONE",)
            else:
                mine = ("PAIR", int(o.value.fields[0].fields[0].t), int(o.value.fields[0].fields[1].t))
            obs = parse_native(native["dev"].ask(line))
            if obs[0] != mine[0] or (mine[0] == "PAIR" and obs != mine):
                raise RuntimeError("MIR interpreter %r vs native %r on %s" % (mine, obs, line))
            n += 1
    return n
