"""Shared machinery for the division family: div, checked_div, div_rounded, mul_rounded, quantize (C03, C04, C17)."""
from .common import *
from . import kernels as K

SIGNS2 = ("++", "+-", "-+", "--")
FORMS = {"vv": ("{}", "{}"), "rv": ("&{}", "{}"), "vr": ("{}", "&{}"), "rr": ("&{}", "&{}")}
NATIVE_OP = {"div": "div", "checked_div": "cdiv", "div_rounded": "drnd", "mul_rounded": "mrnd", "quantize": "quant"}


def operand(st, name, ty, scale, sign, restrict=True):
    """symbolic operand: Decimal (ty == 'Decimal') at given scale or integer of type ty; returns (value, coeff term, scale)"""
    if ty in ("Decimal", "ArchivedDecimal"):
        d = sym_decimal(name, st, scale)
        t = d.fields[0].t
        v = d
        sc = scale
    else:
        v = int_arg(name, ty, st, restrict_i128=restrict)
        t = v.t
        sc = 0
    if sign is not None:
        if not INT_TYPES.get(ty, (True,))[0] and sign == "-":
            return None, None, None      # unsigned type cannot be negative
        st.assume_sign(t, sign == "+")
    return v, t, sc


def find_fn(prog, meth, lty, rty, form, extra=()):
    ret = {"div": "Decimal", "checked_div": "Option<Decimal>", "div_rounded": "Decimal", "mul_rounded": "Decimal",
           "rem": "Decimal", "checked_rem": "Option<Decimal>"}[meth]
    fl, fr = FORMS[form]
    return get_fn(prog, meth, [fl.format(lty), fr.format(rty)] + list(extra), ret)


def nd(x, p, y, q, n, ysign):
    """numerator / positive denominator (terms) of the exact quotient scaled by 10^n"""
    k = q + n - p
    if k >= 0:
        N, D = x * 10 ** k, y
    else:
        N, D = x, y * 10 ** (-k)
    if ysign == "-":
        N, D = -N, -D
    return N, D


def nd_conc(x, p, y, q, n):
    k = q + n - p
    if k >= 0:
        N, D = x * 10 ** k, y
    else:
        N, D = x, y * 10 ** (-k)
    if D < 0:
        N, D = -N, -D
    return N, D


def normalize_conc(c, n):
    if c == 0:
        return 0, 0
    while n > 0 and c % 10 == 0:
        c //= 10
        n -= 1
    return c, n


def expected_div(meth, mode, x, p, y, q, n, lty, rty):
    """concrete oracle: list of acceptable outcomes"""
    checked = meth == "checked_div"
    fail = ("NONE",) if checked else ("PANIC",)
    if meth == "div_rounded" and n > 18:
        return [("PANIC",)]
    if y == 0:
        return [fail]
    if x == 0:
        return [("OK", 0, 0)]
    if meth in ("div", "checked_div"):
        if y == 10 ** q:
            return [("OK", x, p)]
        N, D = nd_conc(x, p, y, q, 18)
        c = rnd_conc(mode, N, D)
        if not (I128_MIN <= c <= I128_MAX):
            return [fail]
        r = [("OK",) + normalize_conc(c, 18)]
        if c == I128_MIN:
            r.append(fail)
        return r
    N, D = nd_conc(x, p, y, q, n)
    c = rnd_conc(mode, N, D)
    if not (I128_MIN <= c <= I128_MAX):
        return [fail]
    r = [("OK", c, n)]
    if c == I128_MIN:
        r.append(fail)
    return r


def judge_div(meth, mode, x, p, y, q, n, ysign, o, ex, rty):
    """VC goal (+extra assumptions) for one outcome of a division-like op (divisor != 0 is NOT assumed)"""
    checked = meth == "checked_div"
    is_div = meth in ("div", "checked_div")
    yzero = (y == 0)
    xzero = (x == 0)
    yone = (y == 10 ** q)
    N, D = K.nd_ite(x, p, y, q, n if not is_div else 18)
    mode_ = mode if mode is not None else 5
    v = None
    if o.kind == "return":
        v = o.value
        if checked:
            v = v.fields[0] if v.variant == 1 else None
    elif checked or panic_class(o) == "unwind":
        return False, []
    if v is None:
        # failure: divisor zero, or the rounded quotient is not representable
        rr = T.fresh_int("rr")
        extra = [z3.Implies(z3.Not(yzero), rnd_rel(mode_, N, D, rr))]
        nofast = z3.And(z3.Not(xzero), z3.Not(yone)) if is_div else z3.Not(xzero)
        goal = z3.Or(yzero, z3.And(nofast, z3.Or(rr > I128_MAX, rr <= I128_MIN)))
        if o.kind == "panic":
            cls = panic_class(o)
            if cls == "DecimalError::DivisionByZero":
                goal = yzero
            elif cls == "DecimalError::MaxNFracDigitsExceeded":
                goal = False
        return goal, extra
    c, sc = dec_fields(v)
    sc_is = lambda k: T.B(T.eq(sc, k))
    if is_div:
        # normalised result: c * 10^(18 - sc) is the rounded quotient, no trailing fractional zero
        if is_conc(sc):
            j = 18 - int(sc)
            c18 = c * 10 ** j
            q10, r10 = ex.tdivmod(o.state, c, 10, "i128")
            norm = z3.Or(T.B(int(sc) == 0), r10 != 0) if int(sc) > 0 else True
            gen = z3.And(rnd_rel(mode_, N, D, c18), T.B(norm), z3.Implies(c == 0, T.B(int(sc) == 0)))
        else:
            raise Unsupported("symbolic result scale")
        goal = z3.And(z3.Not(yzero), z3.If(xzero, z3.And(c == 0, sc_is(0)), z3.If(yone, z3.And(c == x, sc_is(p)), gen)))
    else:
        gen = z3.And(rnd_rel(mode_, N, D, c), sc_is(n))
        goal = z3.And(z3.Not(yzero), z3.If(xzero, z3.And(c == 0, T.B(T.le(sc, n))), gen))
    return goal, []


def run_div_case(ctx, prog, res, meth, lty, rty, form, plist, modes, nlist, signs_list, subst_fn=None, info_extra=None, assign=False,
                 use_contracts=True):
    """generic driver for div / checked_div / div_rounded over the given scale pairs, modes, n values and sign classes"""
    is_div = meth in ("div", "checked_div")
    for (p, q) in plist:
        for n in nlist:
            for mode in modes:
                for sg in signs_list:
                    st = State()
                    a, x, p_ = operand(st, "x", lty, p, sg[0] if sg else None)
                    if a is None:
                        continue
                    b, y, q_ = operand(st, "y", rty, q, sg[1] if sg else None)
                    if b is None:
                        continue
                    args = [a, b]
                    subst = None
                    if assign:
                        f = get_fn(prog, "div_assign", ["&mut Decimal", "T"], "()")
                        subst = {"T": rty}
                        st.heap[("cell", "lhs")] = a
                        args = [RefV(box=("cell", "lhs")), b]
                    else:
                        extra_params = ["u8"] if meth == "div_rounded" else []
                        f = find_fn(prog, meth, lty, rty, form, extra_params)
                        if form[0] == "r":
                            args[0] = ref_to(a)
                        if form[1] == "r":
                            args[1] = ref_to(b)
                        if meth == "div_rounded":
                            args.append(IV(n, "u8"))
                    contracts = dict(K.WIDE_CONTRACTS)
                    if use_contracts:
                        contracts.update(K.make_rounding_contracts(mode))
                        contracts["checked_div_rounded"] = K.make_cdr_contract(mode)
                        contracts["normalize"] = K.c_normalize
                    ex = new_executor(ctx, prog, mode=mode, contracts=contracts, unwind=25)
                    outs = ex.explore(start_state(f, args, subst, st))
                    res.absorb(ex, outs)
                    info = {"p": p_, "q": q_, "n": n, "mode": mode if mode is not None else 5, "meth": meth, "form": "as" if assign else form,
                            "lty": lty, "rty": rty}
                    for i, o in enumerate(outs):
                        name = "%s|p=%d,q=%d,n=%d,mode=%s,signs=%s|path%d:%s" % (res.d["case"], p_, q_, n, mode, sg, i,
                                                                                 o.kind if o.kind == "return" else panic_class(o))
                        if assign and o.kind == "return":
                            o = Outcome("return", o.state.heap[("cell", "lhs")], o.state)
                        if meth == "div_rounded" and n > 18:
                            int_int = lty != "Decimal" and rty != "Decimal"
                            if int_int and "div_rounded-int-by-int-n-gt-18" in ctx.active_regions:
                                continue
                            goal, extra = (o.kind == "panic" and panic_class(o) != "unwind"), []
                        else:
                            goal, extra = judge_div(meth, mode, x, p_, y, q_, n, None, o, ex, rty)
                        r = res.vc(ctx, name, o.state.pruned_constraints(goal, extra), goal, {"x": x, "y": y}, info)
                        if i == 0 and (p + q + n) % 11 == 0:
                            res.sample({"vc": name, "status": r.status, "time_s": round(r.time, 4)})


def replay_div(ctx, native, v):
    info = v["info"]
    x, y = v["inputs"]["x"], v["inputs"]["y"]
    lty, rty = info["lty"], info["rty"]
    lhs = fmt_dec(x, info["p"]) if lty == "Decimal" else "%s:%d" % (lty, x)
    rhs = fmt_dec(y, info["q"]) if rty == "Decimal" else "%s:%d" % (rty, y)
    meth = info["meth"]
    exp = expected_div(meth, info["mode"], x, info["p"], y, info["q"], info["n"], lty, rty)
    line = "%d bin %s %s %s %s %d" % (info["mode"], NATIVE_OP[meth], info["form"], lhs, rhs, info["n"])
    obs = parse_native(native["dev"].ask(line))
    if obs[0] == "PANIC":
        obs = ("PANIC",)
    return {"reproduced": obs not in exp, "line": line, "observed": obs, "expected": exp, "profile": "dev"}


def cosim_div(ctx, native, meths=("div", "checked_div", "div_rounded")):
    import random
    rng = random.Random(ctx.seed + 303)
    prog = ctx.program("dev")
    n = 0
    bv = [0, 1, -1, 3, 7, 10, 10 ** 9, 10 ** 18, MAXC, -MAXC, 10 ** 19 + 7, -10 ** 20, 6, 15, 25, (1 << 64) - 1, (1 << 64) + 1, 16, 1600]
    for meth in meths:
        f = find_fn(prog, meth, "Decimal", "Decimal", "vv", ["u8"] if meth == "div_rounded" else [])
        for _ in range(120):
            x = rng.choice(bv + [rng.randint(-MAXC, MAXC), rng.randint(-10 ** 24, 10 ** 24)])
            y = rng.choice(bv + [rng.randint(-MAXC, MAXC), rng.randint(-10 ** 24, 10 ** 24), rng.randint(-99, 99)])
            p, q, nn = rng.randint(0, 18), rng.randint(0, 18), rng.randint(0, 18)
            mode = rng.randint(0, 7)
            args = [decimal(IV(x, "i128"), IV(p, "u8")), decimal(IV(y, "i128"), IV(q, "u8"))]
            if meth == "div_rounded":
                args.append(IV(nn, "u8"))
            ex = new_executor(ctx, prog, mode=mode, unwind=25)
            outs = ex.explore(start_state(f, args))
            assert len(outs) == 1, outs
            o = outs[0]
            if o.kind == "panic":
                mine = ("PANIC",)
            else:
                v = o.value
                if meth == "checked_div":
                    v = v.fields[0] if v.variant == 1 else None
                mine = ("NONE",) if v is None else ("OK", int(v.fields[0].t), int(v.fields[1].t))
            line = "%d bin %s vv %s %s %d" % (mode, NATIVE_OP[meth], fmt_dec(x, p), fmt_dec(y, q), nn)
            obs = parse_native(native["dev"].ask(line))
            if obs[0] == "PANIC":
                obs = ("PANIC",)
            if obs != mine:
                raise RuntimeError("MIR interpreter %r vs native %r on %s" % (mine, obs, line))
            n += 1
    return n
