"""C04 -- mul_rounded, div_rounded and quantize round the exact result once, per mode."""
from .common import *
from . import divlib as DL
from . import kernels as K
import re

ID = "C04"
META = {
    "bounds": "checked_div_rounded: every (dividend scale, n + divisor scale) class reachable with scales 0..=18 and n 0..=18 (703 classes; quick: boundary + seeded "
              "subset), all 8 modes, 4 sign classes, all coefficients, symbolic divisor; wrappers div_rounded / quantize / mul_rounded for all operand type "
              "combinations and reference forms over scale triples (p, q, n) (quick: boundary + seeded subset of 70 triples under every mode; thorough: all 6859 for Decimal/Decimal under two modes - one of Floor/Ceiling, one other - and every 8th triple under the other six), n in 19..=255 for the rejection clause",
    "outside_claim": ["opt-level / LLVM", "a rounded result equal to i128::MIN may be returned or signalled", "i128 operands equal to i128::MIN"],
    "assumptions": ["builtin models listed in coverage.builtin_models",
                    "contracts: i128_div_rounded (obligation C05 kernel cases), i128_shifted_div_rounded / i128_mul_div_ten_pow_rounded (C16/K4), "
                    "checked_div_rounded (obligation: the 'cdr' cases of this check)",
                    "the Decimal/Decimal forms of div_rounded, mul_rounded and quantize run under all 8 modes in both tiers; the integer-operand and by-reference wrappers (which pass the mode through) under 2 modes in the quick tier (Floor or Ceiling, plus one of the other six, by seed) and all 8 in the thorough tier"],
}


def configs(ctx):
    return [("dev", ["core", "main"])]


def cdr_classes(ctx):
    """(p, s) classes of checked_div_rounded with one (q, n) decomposition each"""
    out = []
    for p in range(19):
        for s in range(37):
            q = min(18, s)
            n = s - q
            out.append((p, q, n))
    if ctx.tier == "thorough":
        return out
    must = {(p, q, n) for (p, q, n) in out if (q + n - p) in (0, 1, -1, 36, 35, -18, -17, 18, 19) or p in (0, 18) and (q + n) in (0, 18, 36)}
    rng = __import__("random").Random(ctx.seed + 44)
    rest = [c for c in out if c not in must]
    rng.shuffle(rest)
    return sorted(must | set(rest[:30]))


def triples(ctx, k):
    rng = __import__("random").Random(ctx.seed + 45)
    must = [(0, 0, 0), (18, 18, 18), (18, 0, 0), (0, 18, 18), (4, 0, 3), (1, 0, 0), (18, 0, 17), (9, 9, 9), (3, 18, 0), (18, 18, 0)]
    return must + [(rng.randint(0, 18), rng.randint(0, 18), rng.randint(0, 18)) for _ in range(k)]


def cases(ctx):
    out = []
    thorough = ctx.tier == "thorough"
    out.append({"id": "cdr|independence of (q, n) beyond q+n", "kind": "indep", "weight": 1})
    cls = cdr_classes(ctx)
    for mode in range(8):
        for chunk in range(0, len(cls), 12):
            out.append({"id": "cdr|mode=%d|classes%d" % (mode, chunk), "kind": "cdr", "mode": mode, "classes": cls[chunk:chunk + 12], "weight": 40})
    # the integer-operand / by-reference wrappers pass the mode through untouched: a direction-dependent mode (Floor or Ceiling, the ones
    # that expose sign handling around the kernels) plus one of the other six, rotating with the seed
    modes = list(range(8)) if thorough else [(1, 3)[ctx.seed % 2], (0, 2, 4, 5, 6, 7)[ctx.seed % 6]]
    # the Decimal/Decimal forms of div_rounded and mul_rounded (own code around the kernels): every mode in both tiers
    modes_dd = list(range(8))
    # wrappers
    if thorough:
        trip = [(p, q, n) for p in range(19) for q in range(19) for n in range(19)]
    else:
        trip = triples(ctx, 60)
    # thorough: all 6859 scale triples under two modes (one direction-dependent, by seed), every 8th triple under the other six
    full_modes = [(1, 3)[ctx.seed % 2], (0, 2, 4, 5, 6, 7)[ctx.seed % 6]]
    for mode in modes_dd:
        trip_m = trip if (not thorough or mode in full_modes) else trip[mode::8]
        for chunk in range(0, len(trip_m), 200):
            out.append({"id": "div_rounded|dec-dec|vv|mode=%d|t%d" % (mode, chunk), "kind": "wrap", "meth": "div_rounded", "lty": "Decimal", "rty": "Decimal",
                        "form": "vv", "mode": mode, "triples": trip_m[chunk:chunk + 200], "weight": 30})
            out.append({"id": "mul_rounded|dec-dec|vv|mode=%d|t%d" % (mode, chunk), "kind": "mulr", "form": "vv", "mode": mode,
                        "triples": trip_m[chunk:chunk + 200], "weight": 30})
    small = triples(ctx, 6 if not thorough else 40)
    for form in ("rv", "vr", "rr"):
        out.append({"id": "div_rounded|dec-dec|%s" % form, "kind": "wrap", "meth": "div_rounded", "lty": "Decimal", "rty": "Decimal", "form": form,
                    "mode": modes[0], "triples": small, "weight": 10})
        out.append({"id": "mul_rounded|dec-dec|%s" % form, "kind": "mulr", "form": form, "mode": modes[0], "triples": small, "weight": 10})
    tys = INT9 if thorough else ["u8", "i64", "i128"]
    for ty in INT9:
        for shape in ("di", "id", "ii"):
            lty = "Decimal" if shape == "di" else ty
            rty = "Decimal" if shape == "id" else ty
            forms = ["vv", "rv", "vr", "rr"] if ty in tys else ["vv"]
            for form in forms:
                if shape == "di":
                    tr = [(p, 0, n) for (p, _, n) in (trip if thorough and form == "vv" else small)]
                elif shape == "id":
                    tr = [(0, q, n) for (_, q, n) in (trip if thorough and form == "vv" else small)]
                else:
                    tr = [(0, 0, n) for n in range(19)]
                tr = sorted(set(tr))
                out.append({"id": "div_rounded|%s:%s|%s" % (shape, ty, form), "kind": "wrap", "meth": "div_rounded", "lty": lty, "rty": rty, "form": form,
                            "mode": modes[INT9.index(ty) % len(modes)], "triples": tr, "weight": 10})
            out.append({"id": "quantize|%s:%s" % (shape, ty), "kind": "quant", "lty": lty, "rty": rty, "mode": modes[INT9.index(ty) % len(modes)],
                        "scales": list(range(19)) if (thorough or ty in tys) else [0, 7, 18], "weight": 10})
    for mode in modes_dd:
        out.append({"id": "quantize|dec-dec|mode=%d" % mode, "kind": "quant", "lty": "Decimal", "rty": "Decimal", "mode": mode, "scales": None, "weight": 30})
    # rejection clause n > 18
    for shape, lty, rty in (("dd", "Decimal", "Decimal"), ("di", "Decimal", "u8"), ("id", "i64", "Decimal"), ("di", "Decimal", "i128"), ("id", "u16", "Decimal"), ("ii", "u64", "u64"), ("ii", "i8", "i8")):
        out.append({"id": "div_rounded|reject n>18|%s/%s" % (lty, rty), "kind": "reject", "lty": lty, "rty": rty, "weight": 15})
    out.append({"id": "mul_rounded|reject n>18", "kind": "rejectm", "weight": 15})
    out += rounding_kernel_obligations(ctx)
    return out


def run_case(ctx, case):
    if case.get("delegate"):
        return run_delegated(ctx, case)
    prog = ctx.program("dev")
    res = Res(case["id"])
    kind = case["kind"]
    if kind == "indep":
        f = get_fn(prog, "checked_div_rounded", ["i128", "u8", "i128", "u8", "u8"])
        # _4 (divisor scale) and _5 (n) may only be used to form their sum in bb0
        uses = []
        for bb, (stmts, term) in f.blocks.items():
            for s_ in list(stmts) + [term]:
                if re.search(r"\b_4\b|\b_5\b", s_):
                    uses.append((bb, s_))
        ok = all(bb == "bb0" and ("AddWithOverflow(copy _5, copy _4)" in s_ or s_.startswith("assert(")) for bb, s_ in uses) and len(uses) >= 1
        res.d["vcs"] += 1
        res.d["distinct"].append(case["id"])
        if ok:
            res.d["discharged"] += 1
        else:
            res.d["inconclusive"].append("checked_div_rounded uses its n / divisor-scale parameters beyond their sum: the (p, q+n) class reduction is not justified: %r" % uses[:4])
        res.sample({"vc": case["id"], "uses": [u[1][:80] for u in uses]})
        return res.done()
    if kind == "cdr":
        mode = case["mode"]
        f = get_fn(prog, "checked_div_rounded", ["i128", "u8", "i128", "u8", "u8"])
        for (p, q, n) in case["classes"]:
            for sg in DL.SIGNS2:
                st = State()
                x = sym_int("x", "i128", st, lo=-MAXC)
                y = sym_int("y", "i128", st, lo=-MAXC)
                st.assume_sign(x.t, sg[0] == "+")
                st.assume_sign(y.t, sg[1] == "+")
                st.defs.append(y.t != 0)
                ex = new_executor(ctx, prog, mode=mode, contracts=K.make_rounding_contracts(mode))
                outs = ex.explore(start_state(f, [x, IV(p, "u8"), y, IV(q, "u8"), IV(n, "u8")], None, st))
                res.absorb(ex, outs)
                N, D = DL.nd(x.t, p, y.t, q, n, sg[1])
                for i, o in enumerate(outs):
                    name = "cdr|p=%d,q=%d,n=%d,mode=%d,signs=%s|path%d:%s" % (p, q, n, mode, sg, i, o.kind if o.kind == "return" else panic_class(o))
                    extra = []
                    if o.kind == "return" and o.value.variant == 1:
                        goal = rnd_rel(mode, N, D, o.value.fields[0].t)
                    elif o.kind == "return":
                        rr = T.fresh_int("rr")
                        extra = [rnd_rel(mode, N, D, rr)]
                        goal = z3.Or(rr > I128_MAX, rr <= I128_MIN)
                    else:
                        # the kernel must not panic at all; look first for a counterexample whose exact result is
                        # representable (visible through every public operator), then for any
                        rr = T.fresh_int("rr")
                        extra = [rnd_rel(mode, N, D, rr)]
                        goal = z3.Or(rr > I128_MAX, rr <= I128_MIN)
                        r0 = res.vc(ctx, name + "|representable", o.state.pruned_constraints(goal, extra), goal, {"x": x.t, "y": y.t},
                                    {"kind": "cdr", "p": p, "q": q, "n": n, "mode": mode})
                        if r0.status != "unsat":
                            continue
                        goal, extra = False, []
                    r = res.vc(ctx, name, o.state.pruned_constraints(goal, extra), goal, {"x": x.t, "y": y.t},
                               {"kind": "cdr", "p": p, "q": q, "n": n, "mode": mode, "panic_path": o.kind != "return"})
                    if i == 0 and sg == "+-" and (p + q) % 7 == 0:
                        res.sample({"vc": name, "status": r.status, "time_s": round(r.time, 4)})
        return res.done()
    if kind == "wrap":
        mode = case["mode"]
        for (p, q, n) in case["triples"]:
            DL.run_div_case(ctx, prog, res, "div_rounded", case["lty"], case["rty"], case["form"], [(p, q)], [mode], [n], [None])
        return res.done()
    if kind == "reject":
        ns = list(range(19, 256)) if ctx.tier == "thorough" else [19, 20, 36, 37, 38, 39, 100, 237, 238, 250, 255]
        sc_l = [0, 18] if case["lty"] == "Decimal" else [0]
        sc_r = [0, 10, 18] if case["rty"] == "Decimal" else [0]
        for n in ns:
            DL.run_div_case(ctx, prog, res, "div_rounded", case["lty"], case["rty"], "vv", [(p, q) for p in sc_l for q in sc_r], [5], [n], [None])
        return res.done()
    if kind in ("mulr", "rejectm"):
        mode = case.get("mode", 5)
        form = case.get("form", "vv")
        f = get_fn(prog, "mul_rounded", [DL.FORMS[form][0].format("Decimal"), DL.FORMS[form][1].format("Decimal"), "u8"], "Decimal")
        if kind == "rejectm":
            tl = [(p, q, n) for (p, q) in ((0, 0), (18, 18), (5, 9)) for n in ([19, 20, 37, 100, 255] if ctx.tier == "quick" else range(19, 256))]
        else:
            tl = case["triples"]
        for (p, q, n) in tl:
            st = State()
            a = sym_decimal("x", st, p)
            b = sym_decimal("y", st, q)
            x, y = a.fields[0].t, b.fields[0].t
            args = [a, b]
            if form[0] == "r":
                args[0] = ref_to(a)
            if form[1] == "r":
                args[1] = ref_to(b)
            contracts = dict(K.WIDE_CONTRACTS)
            contracts.update(K.make_rounding_contracts(mode))
            ex = new_executor(ctx, prog, mode=mode, contracts=contracts)
            outs = ex.explore(start_state(f, args + [IV(n, "u8")], None, st))
            res.absorb(ex, outs)
            P = x * y
            s = p + q
            for i, o in enumerate(outs):
                name = "%s|p=%d,q=%d,n=%d,mode=%d|path%d:%s" % (case["id"], p, q, n, mode, i, o.kind if o.kind == "return" else panic_class(o))
                extra = []
                if n > 18:
                    goal = (o.kind == "panic" and panic_class(o) != "unwind")
                elif o.kind == "return":
                    c, sc = dec_fields(o.value)
                    if n >= s:
                        gen = z3.And(c == P, T.B(T.eq(sc, s)))
                    else:
                        gen = z3.And(rnd_rel(mode, P, 10 ** (s - n), c), T.B(T.eq(sc, n)))
                    goal = z3.If(z3.Or(x == 0, y == 0), z3.And(c == 0, T.B(T.le(sc, n))), gen)
                elif panic_class(o) in ("unwind", "DecimalError::MaxNFracDigitsExceeded", "DecimalError::DivisionByZero"):
                    goal = False
                else:
                    if n >= s:
                        req = P
                    else:
                        req = T.fresh_int("rr")
                        extra = [rnd_rel(mode, P, 10 ** (s - n), req)]
                    goal = z3.And(x != 0, y != 0, z3.Or(req > I128_MAX, req <= I128_MIN))
                res.vc(ctx, name, o.state.pruned_constraints(goal, extra), goal, {"x": x, "y": y},
                       {"kind": "mulr", "p": p, "q": q, "n": n, "mode": mode, "form": form})
        return res.done()
    if kind == "quant":
        return run_quantize(ctx, prog, res, case)
    raise Unsupported(kind)


def run_quantize(ctx, prog, res, case):
    """quantize(x, quant) = div_rounded(x, quant, 0) * quant.  The inner div_rounded is replaced by its contract
    (obligation: the div_rounded wrapper cases of this check), the multiplication is the real impl (inlined)."""
    mode = case["mode"]
    lty, rty = case["lty"], case["rty"]
    f = get_fn(prog, "quantize", ["T", "Q"])
    if case["scales"] is None:
        plist = [(p, q) for p in range(19) for q in range(19)] if ctx.tier == "thorough" else \
            [(0, 0), (18, 18), (18, 0), (0, 18), (1, 0), (2, 1), (5, 9), (9, 5), (17, 18), (18, 17), (3, 3)]
    elif lty == "Decimal":
        plist = [(p, 0) for p in case["scales"]]
    elif rty == "Decimal":
        plist = [(0, q) for q in case["scales"]]
    else:
        plist = [(0, 0)]
    for (p, q) in plist:
        st = State()
        a, x, p_ = DL.operand(st, "x", lty, p, None)
        b, y, q_ = DL.operand(st, "y", rty, q, None)
        N, D = K.nd_ite(x, p_, y, q_, 0)
        kq = T.fresh_int("kq")
        calls = []

        def c_div_rounded(ex, st_, fr, callee, args, kq=kq):
            from mir2smt.exec import _Alts
            BI._use("CONTRACT <T as DivRounded<Q>>::div_rounded (inside quantize): rounded quotient at scale n or panic (obligation: div_rounded wrapper cases)")
            calls.append(args)
            xa = args[0].fields[0].t if isinstance(args[0], Agg) else args[0].t
            ya = args[1].fields[0].t if isinstance(args[1], Agg) else args[1].t
            wired = T.band(T.eq(xa, x), T.eq(ya, y), T.eq(args[2].t, 0))
            if not ex.proves(st_, wired, 5000):
                raise Unsupported("quantize does not call div_rounded(self, quant, 0)")
            st_.define((kq,), (z3.Implies(T.I(y) != 0, rnd_rel(mode, N, D, kq)),))
            okv = decimal(IV(kq, "i128"), IV(0, "u8"))
            zero = decimal(IV(0, "i128"), IV(0, "u8"))
            return _Alts([(T.I(y) == 0, Outcome("panic", None, None, "explicit: DecimalError::DivisionByZero")),
                          (z3.And(T.I(y) != 0, T.I(x) == 0), zero),
                          (z3.And(T.I(y) != 0, T.I(x) != 0, kq > I128_MIN, kq <= I128_MAX), okv),
                          (z3.And(T.I(y) != 0, T.I(x) != 0, z3.Or(kq > I128_MAX, kq <= I128_MIN)),
                           Outcome("panic", None, None, "explicit: DecimalError::InternalOverflow")),
                          (z3.And(T.I(y) != 0, T.I(x) != 0, kq == I128_MIN), okv)])
        contracts = {"div_rounded": c_div_rounded}
        ex = new_executor(ctx, prog, mode=mode, contracts=contracts)
        outs = ex.explore(start_state(f, [a, b], {"T": lty, "Q": rty}, st))
        res.absorb(ex, outs)
        for i, o in enumerate(outs):
            name = "%s|p=%d,q=%d,mode=%d|path%d:%s" % (case["id"], p_, q_, mode, i, o.kind if o.kind == "return" else panic_class(o))
            ky = kq * T.I(y)
            if o.kind == "return":
                c, sc = dec_fields(o.value)
                if not is_conc(sc):
                    raise Unsupported("symbolic scale")
                sc = int(sc)
                goal = z3.And(T.I(y) != 0, T.I(c) * 10 ** (q_ - sc) == z3.If(T.I(x) == 0, 0, ky)) if sc <= q_ else False
            else:
                cls = panic_class(o)
                if cls == "unwind" or cls == "DecimalError::MaxNFracDigitsExceeded":
                    goal = False
                elif cls == "DecimalError::DivisionByZero":
                    goal = (T.I(y) == 0)
                else:
                    goal = z3.And(T.I(y) != 0, T.I(x) != 0, z3.Or(ky > I128_MAX, ky <= I128_MIN, kq > I128_MAX, kq <= I128_MIN))
            res.vc(ctx, name, o.state.pruned_constraints(goal), goal, {"x": x, "y": y},
                   {"kind": "quant", "p": p_, "q": q_, "mode": mode, "lty": lty, "rty": rty})
        if not calls:
            res.d["inconclusive"].append("quantize never called div_rounded")
    return res.done()


def replay(ctx, native, v):
    if v.get("info", {}).get("delegate"):
        return replay_delegated(ctx, native, v)
    info = v["info"]
    kind = info.get("kind")
    x, y = v["inputs"]["x"], v["inputs"]["y"]
    nat = native["dev"]
    if kind == "cdr":
        # replay through the public Decimal / Decimal div_rounded (same kernel call)
        p, q, n, mode = info["p"], info["q"], info["n"], info["mode"]
        if n > 18:
            return {"reproduced": False, "line": "", "observed": "class only reachable from the int/int form", "expected": ""}
        line = "%d bin drnd vv %s %s %d" % (mode, fmt_dec(x, p), fmt_dec(y, q), n)
        obs = parse_native(nat.ask(line))
        if obs[0] == "PANIC":
            obs = ("PANIC",)
        exp = DL.expected_div("div_rounded", mode, x, p, y, q, n, "Decimal", "Decimal")
        if obs in exp and info.get("panic_path") and n == 18 and y != 10 ** q and x != 0:
            # the kernel panics where it has to return None: visible through checked_div (must never panic)
            line = "%d bin cdiv vv %s %s" % (mode, fmt_dec(x, p), fmt_dec(y, q))
            obs = parse_native(nat.ask(line))
            if obs[0] == "PANIC":
                obs = ("PANIC",)
            exp = DL.expected_div("checked_div", mode, x, p, y, q, 18, "Decimal", "Decimal")
        return {"reproduced": obs not in exp, "line": line, "observed": obs, "expected": exp, "profile": "dev"}
    if kind == "mulr":
        p, q, n, mode = info["p"], info["q"], info["n"], info["mode"]
        line = "%d bin mrnd %s %s %s %d" % (mode, info["form"], fmt_dec(x, p), fmt_dec(y, q), n)
        obs = parse_native(nat.ask(line))
        if obs[0] == "PANIC":
            obs = ("PANIC",)
        if n > 18:
            exp = [("PANIC",)]
        elif x == 0 or y == 0:
            exp = [("OK", 0, 0)]
        else:
            s = p + q
            c, sc = (x * y, s) if n >= s else (rnd_conc(mode, x * y, 10 ** (s - n)), n)
            exp = [("OK", c, sc)] if I128_MIN < c <= I128_MAX else ([("PANIC",)] + ([("OK", c, sc)] if c == I128_MIN else []))
        return {"reproduced": obs not in exp, "line": line, "observed": obs, "expected": exp, "profile": "dev"}
    if kind == "quant":
        lty, rty, p, q, mode = info["lty"], info["rty"], info["p"], info["q"], info["mode"]
        lhs = fmt_dec(x, p) if lty == "Decimal" else "%s:%d" % (lty, x)
        rhs = fmt_dec(y, q) if rty == "Decimal" else "%s:%d" % (rty, y)
        line = "%d bin quant vv %s %s" % (mode, lhs, rhs)
        obs = parse_native(nat.ask(line))
        if y == 0:
            ok = obs[0] == "PANIC"
        else:
            N, D = DL.nd_conc(x, p, y, q, 0)
            k = rnd_conc(mode, N, D)
            ky = k * y
            if obs[0] == "OK":
                ok = obs[2] <= q and obs[1] * 10 ** (q - obs[2]) == ky
            else:
                ok = obs[0] == "PANIC" and not (I128_MIN < ky <= I128_MAX and I128_MIN < k <= I128_MAX)
        return {"reproduced": not ok, "line": line, "observed": obs, "expected": "k*quant with k = rounded quotient", "profile": "dev"}
    return DL.replay_div(ctx, native, v)


def confirm_known(ctx, native, ent):
    w = ent.get("witness")
    return bool(w) and native["dev"].ask(w["line"]) == w["observed"]


def cosim(ctx, native):
    return DL.cosim_div(ctx, native, ("div_rounded",))
