"""Contracts (assume-guarantee) for the wide-arithmetic kernels of fpdec-core.
The obligations that justify them are discharged by C16 (K0-K2)."""
from .common import *
from mir2smt.exec import _Alts

B128 = 1 << 128


def c_u128_mul_u128(ex, st, fr, callee, args):
    """(hi, lo) with hi*2^128 + lo = x*y  -- justified by C16/K1"""
    x, y = args
    BI._use("CONTRACT u128_mul_u128: hi*2^128+lo = x*y (obligation C16/K1)")
    if is_conc(x.t) and is_conc(y.t):
        p = x.t * y.t
        return Agg("tuple", (IV(p >> 128, "u128"), IV(p & (B128 - 1), "u128")))
    hi = T.fresh_int("mulhi")
    lo = T.fresh_int("mullo")
    st.defs.append(hi * B128 + lo == T.I(x.t) * T.I(y.t))
    st.defs.append(z3.And(lo >= 0, lo < B128, hi >= 0, hi < B128))
    return Agg("tuple", (IV(hi, "u128"), IV(lo, "u128")))


def c_u256_idiv_u128(ex, st, fr, callee, args):
    """x <- x div y (256 bit, in place), returns x mod y -- justified by C16/K2"""
    rxh, rxl, y = args
    xh = ex.read_ref(st, rxh)
    xl = ex.read_ref(st, rxl)
    BI._use("CONTRACT u256_idiv_u128: X = Q*y + r, 0 <= r < y (obligations C16/K2a-c)")
    yz = T.eq(y.t, 0)
    if isinstance(yz, bool) and yz:
        return Outcome("panic", None, st, "attempt to calculate the remainder with a divisor of zero")
    X = T.add(T.mul(xh.t, B128), xl.t)
    if is_conc(X) and is_conc(y.t):
        Q, r = divmod(X, y.t)
        ex.write_ref(st, rxh, IV(Q >> 128, "u128"))
        ex.write_ref(st, rxl, IV(Q & (B128 - 1), "u128"))
        return IV(r, "u128")
    if not isinstance(yz, bool) and yz.get_id() not in st.false_ids and ex.feasible(st, yz):
        from mir2smt.exec import Fork
        raise Fork([(yz, lambda s2: s2.tags.__setitem__("finish_panic", "attempt to calculate the remainder with a divisor of zero")),
                    (z3.Not(yz), None)])
    qh = T.fresh_int("qh")
    ql = T.fresh_int("ql")
    r = T.fresh_int("wr")
    st.defs.append(T.I(X) == (qh * B128 + ql) * T.I(y.t) + r)
    st.defs.append(z3.And(r >= 0, r < T.I(y.t), ql >= 0, ql < B128, qh >= 0, qh < B128))
    ex.write_ref(st, rxh, IV(qh, "u128"))
    ex.write_ref(st, rxl, IV(ql, "u128"))
    return IV(r, "u128")


def c_u256_idiv_u64(ex, st, fr, callee, args):
    BI._use("CONTRACT u256_idiv_u64 (obligation C16/K2a)")
    return c_u256_idiv_u128(ex, st, fr, callee, args)


def c_u256_idiv_u128_special(ex, st, fr, callee, args):
    """requires *xh < y and y >= 2^64 (obligation C16/K2b per normalisation shift)"""
    rxh, rxl, y = args
    xh = ex.read_ref(st, rxh)
    BI._use("CONTRACT u256_idiv_u128_special: pre xh < y, y >= 2^64 (obligation C16/K2b)")
    pre = T.band(T.lt(xh.t, y.t), T.le(1 << 64, y.t))
    if not ex.proves(st, pre, 5000):
        raise Unsupported("precondition of u256_idiv_u128_special not provable at call site")
    r = c_u256_idiv_u128(ex, st, fr, callee, args)
    # post: quotient < 2^128, i.e. *xh == 0 (as written by the code)
    return r


WIDE_CONTRACTS = {"u128_mul_u128": c_u128_mul_u128, "u256_idiv_u128": c_u256_idiv_u128}


def c_magnitude(ex, st, fr, callee, args):
    """i128_magnitude(i) = floor(log10 |i|) (0 for 0) -- obligation: Kani harness over all i128 (C15)"""
    x = args[0].t
    BI._use("CONTRACT i128_magnitude = floor(log10|i|), 0 for 0 (obligation: C15 Kani harness, all i128)")
    if is_conc(x):
        return IV(len(str(abs(x))) - 1, "u8")
    alts = []
    ax = z3.If(x >= 0, x, -x)
    for m in range(39):
        lo = 0 if m == 0 else 10 ** m
        hi = 10 ** (m + 1)
        alts.append((z3.And(ax >= lo, ax < hi), IV(m, "u8")))
    return _Alts(alts)
