"""Contracts (assume-guarantee) for the wide-arithmetic kernels of fpdec-core.
The obligations that justify them are discharged by C16 (K0-K2)."""
from .common import *
from mir2smt.exec import _Alts

B128 = 1 << 128


def c_u128_mul_u128(ex, st, fr, callee, args):
    """(hi, lo) with hi*2^128 + lo = x*y  -- justified by C16/K1"""
    x, y = args
    BI._use("CONTRACT u128_mul_u128: hi*2^128+lo = x*y (obligation C16/K1)")
    if is_conc(x.t) and is_conc(y.t):
        p = x.t * y.t
        return Agg("tuple", (IV(p >> 128, "u128"), IV(p & (B128 - 1), "u128")))
    hi = T.fresh_int("mulhi")
    lo = T.fresh_int("mullo")
    st.defs.append(hi * B128 + lo == T.I(x.t) * T.I(y.t))
    st.defs.append(z3.And(lo >= 0, lo < B128, hi >= 0, hi < B128))
    return Agg("tuple", (IV(hi, "u128"), IV(lo, "u128")))


def c_u256_idiv_u128(ex, st, fr, callee, args):
    """x <- x div y (256 bit, in place), returns x mod y -- justified by C16/K2"""
    rxh, rxl, y = args
    xh = ex.read_ref(st, rxh)
    xl = ex.read_ref(st, rxl)
    BI._use("CONTRACT u256_idiv_u128: X = Q*y + r, 0 <= r < y (obligations C16/K2a-c)")
    yz = T.eq(y.t, 0)
    if isinstance(yz, bool) and yz:
        return Outcome("panic", None, st, "attempt to calculate the remainder with a divisor of zero")
    X = T.add(T.mul(xh.t, B128), xl.t)
    if is_conc(X) and is_conc(y.t):
        Q, r = divmod(X, y.t)
        ex.write_ref(st, rxh, IV(Q >> 128, "u128"))
        ex.write_ref(st, rxl, IV(Q & (B128 - 1), "u128"))
        return IV(r, "u128")
    if not isinstance(yz, bool) and yz.get_id() not in st.false_ids and ex.feasible(st, yz):
        from mir2smt.exec import Fork
        raise Fork([(yz, lambda s2: s2.tags.__setitem__("finish_panic", "attempt to calculate the remainder with a divisor of zero")),
                    (z3.Not(yz), None)])
    qh = T.fresh_int("qh")
    ql = T.fresh_int("ql")
    r = T.fresh_int("wr")
    st.defs.append(T.I(X) == (qh * B128 + ql) * T.I(y.t) + r)
    st.defs.append(z3.And(r >= 0, r < T.I(y.t), ql >= 0, ql < B128, qh >= 0, qh < B128))
    ex.write_ref(st, rxh, IV(qh, "u128"))
    ex.write_ref(st, rxl, IV(ql, "u128"))
    return IV(r, "u128")


def c_u256_idiv_u64(ex, st, fr, callee, args):
    BI._use("CONTRACT u256_idiv_u64 (obligation C16/K2a)")
    return c_u256_idiv_u128(ex, st, fr, callee, args)


def c_u256_idiv_u128_special(ex, st, fr, callee, args):
    """requires *xh < y and y >= 2^64 (obligation C16/K2b per normalisation shift)"""
    rxh, rxl, y = args
    xh = ex.read_ref(st, rxh)
    BI._use("CONTRACT u256_idiv_u128_special: pre xh < y, y >= 2^64 (obligation C16/K2b)")
    pre = T.band(T.lt(xh.t, y.t), T.le(1 << 64, y.t))
    if not ex.proves(st, pre, 5000):
        # the callee starts with debug_assert!(*xh < y): with debug assertions on, a call that may violate it can panic
        if isinstance(pre, bool):
            return Outcome("panic", None, st, "assertion failed: *xh < y (precondition of u256_idiv_u128_special)")
        from mir2smt.exec import Fork
        if pre.get_id() not in st.true_ids:
            raise Fork([(z3.Not(pre), lambda s2: s2.tags.__setitem__("finish_panic", "assertion failed: *xh < y (precondition of u256_idiv_u128_special)")),
                        (pre, None)])
    r = c_u256_idiv_u128(ex, st, fr, callee, args)
    # post: quotient < 2^128, i.e. *xh == 0 (as written by the code)
    return r


WIDE_CONTRACTS = {"u128_mul_u128": c_u128_mul_u128, "u256_idiv_u128": c_u256_idiv_u128}


def c_magnitude(ex, st, fr, callee, args):
    """i128_magnitude(i) = floor(log10 |i|) (0 for 0) -- obligation: Kani harness over all i128 (C15)"""
    x = args[0].t
    BI._use("CONTRACT i128_magnitude = floor(log10|i|), 0 for 0 (obligation: C15 Kani harness, all i128)")
    if is_conc(x):
        return IV(len(str(abs(x))) - 1, "u8")
    key = ("magn", x.get_id())
    if key in st.divcache:
        return IV(st.divcache[key][0], "u8")
    m = T.fresh_int("magn")
    ax = z3.If(x >= 0, x, -x)
    cases = []
    for k in range(39):
        lo = 0 if k == 0 else 10 ** k
        cases.append(z3.And(m == k, ax >= lo, ax < 10 ** (k + 1)))
    st.define((m,), (z3.Or(*cases), z3.And(m >= 0, m <= 38)))
    st.divcache[key] = (m, x)
    return IV(m, "u8", ub=6)


def c_magnitude_alts(ex, st, fr, callee, args):
    """same contract, forking over the (few) feasible magnitudes so that the result is concrete on each path"""
    x = args[0].t
    BI._use("CONTRACT i128_magnitude = floor(log10|i|), 0 for 0 (obligation: C15 Kani harness, all i128)")
    if is_conc(x):
        return IV(len(str(abs(x))) - 1, "u8")
    alts = []
    ax = z3.If(x >= 0, x, -x)
    for m in range(39):
        lo = 0 if m == 0 else 10 ** m
        alts.append((z3.And(ax >= lo, ax < 10 ** (m + 1)), IV(m, "u8")))
    return _Alts(alts)


# ---------------------------------------------------------------------------
# rounding kernels (obligations: C05 kernel cases, C16/K4)
# ---------------------------------------------------------------------------

def _mode_of(ex, st, marg, default_mode):
    if isinstance(marg, EnumV) and marg.ty == "Option":
        if marg.variant == 1:
            return marg.fields[0].variant
        return default_mode
    return default_mode


def _ckey(name, mode, *vals):
    return ("contract", name, mode) + tuple(T.term_id(v) for v in vals)


def make_rounding_contracts(default_mode):
    """contracts for i128_div_rounded / i128_shifted_div_rounded / i128_mul_div_ten_pow_rounded under the
    thread's current mode `default_mode`"""

    def c_div_rounded(ex, st, fr, callee, args):
        N, D, marg = args
        mode = _mode_of(ex, st, marg, default_mode)
        if mode is None:
            return NotImplemented
        if is_conc(N.t) and is_conc(D.t):
            return NotImplemented
        dom = T.band(T.le(-MAXC, N.t), T.le(-MAXC, D.t), T.bnot(T.eq(D.t, 0)))
        if not ex.proves(st, dom, 2000):
            return NotImplemented        # outside the contract's domain: execute the real body
        BI._use("CONTRACT i128_div_rounded = declarative rounding of N/D (obligation: C05 kernel cases, all modes)")
        key = _ckey("dr", mode, N.t, D.t)
        if key in st.divcache:
            return IV(st.divcache[key][0], "i128")
        c = T.fresh_int("dr")
        st.divcache[key] = (c, N.t, D.t)
        kd = st.known(T.lt(D.t, 0))
        if is_conc(D.t):
            kd = D.t < 0
        if kd is True:
            Nn, Dn = T.neg(N.t), T.neg(D.t)
        elif kd is False:
            Nn, Dn = N.t, D.t
        else:
            Nn, Dn = z3.If(D.t < 0, -T.I(N.t), T.I(N.t)), z3.If(D.t < 0, -T.I(D.t), T.I(D.t))
        st.define((c,), (rnd_rel(mode, Nn, Dn, c),), heavy=not is_conc(Dn))
        return IV(c, "i128")

    def _opt_alts(ex, st, rr):
        # a result of exactly i128::MIN may be returned or rejected; the (unknown but fixed) choice is a function of the call
        ck = ("minchoice", rr.get_id())
        if ck not in st.divcache:
            st.divcache[ck] = (T.fresh_bool("minchoice"), rr)
        ch = st.divcache[ck][0]
        some = EnumV("Option", 1, (IV(rr, "i128"),))
        none = EnumV("Option", 0)
        return _Alts([(z3.And(rr > I128_MIN, rr <= I128_MAX), some),
                      (z3.Or(rr > I128_MAX, rr < I128_MIN), none),
                      (z3.And(rr == I128_MIN, ch), some), (z3.And(rr == I128_MIN, z3.Not(ch)), none)])

    def c_shifted_div_rounded(ex, st, fr, callee, args):
        x, k, d, marg = args
        mode = _mode_of(ex, st, marg, default_mode)
        if mode is None or not is_conc(k.t) or k.t > 38:
            return NotImplemented
        dom = T.band(T.le(-MAXC, x.t), T.le(-MAXC, d.t), T.bnot(T.eq(d.t, 0)))
        if not ex.proves(st, dom, 2000):
            return NotImplemented
        BI._use("CONTRACT i128_shifted_div_rounded = rounding of x*10^k/d, None iff not representable (obligation C16/K4)")
        key = _ckey("sdr", mode, x.t, k.t, d.t)
        if key in st.divcache:
            return _opt_alts(ex, st, st.divcache[key][0])
        rr = T.fresh_int("sdr")
        st.divcache[key] = (rr, x.t, d.t)
        kd = st.known(T.lt(d.t, 0))
        if kd is True:
            Nn, Dn = T.neg(x.t) * 10 ** k.t, T.neg(d.t)
        elif kd is False:
            Nn, Dn = T.I(x.t) * 10 ** k.t, d.t
        else:
            Nn, Dn = z3.If(d.t < 0, -T.I(x.t), T.I(x.t)) * 10 ** k.t, z3.If(d.t < 0, -T.I(d.t), T.I(d.t))
        st.define((rr,), (rnd_rel(mode, Nn, Dn, rr),), heavy=True)
        return _opt_alts(ex, st, rr)

    def c_mul_div_ten_pow_rounded(ex, st, fr, callee, args):
        x, y, p, marg = args
        mode = _mode_of(ex, st, marg, default_mode)
        if mode is None or not is_conc(p.t) or p.t > 38:
            return NotImplemented
        dom = T.band(T.le(-MAXC, x.t), T.le(-MAXC, y.t))
        if not ex.proves(st, dom, 2000):
            return NotImplemented
        BI._use("CONTRACT i128_mul_div_ten_pow_rounded = rounding of x*y/10^p, None iff not representable (obligation C16/K4)")
        key = _ckey("mdr", mode, x.t, y.t, p.t)
        if key in st.divcache:
            return _opt_alts(ex, st, st.divcache[key][0])
        rr = T.fresh_int("mdr")
        st.divcache[key] = (rr, x.t, y.t)
        st.define((rr,), (rnd_rel(mode, T.I(x.t) * T.I(y.t), 10 ** p.t, rr),), heavy=True)
        return _opt_alts(ex, st, rr)

    return {"i128_div_rounded": c_div_rounded, "i128_shifted_div_rounded": c_shifted_div_rounded,
            "i128_mul_div_ten_pow_rounded": c_mul_div_ten_pow_rounded}


def nd_ite(x, p, y, q, n):
    """numerator / positive denominator of (x/10^p)/(y/10^q)*10^n with the divisor's sign normalised by ite"""
    k = q + n - p
    x, y = T.I(x), T.I(y)
    if k >= 0:
        N, D = x * 10 ** k, y
    else:
        N, D = x, y * 10 ** (-k)
    return z3.If(y < 0, -N, N), z3.If(y < 0, -D, D)


def make_cdr_contract(default_mode):
    """checked_div_rounded(dc, dp, vc, vq, n): obligation = C04 'cdr' cases (all (dp, n+vq) classes, modes, signs)"""

    def c_cdr(ex, st, fr, callee, args):
        dc, dp, vc, vq, n = args
        if not (is_conc(dp.t) and is_conc(vq.t) and is_conc(n.t)):
            return NotImplemented
        if n.t + vq.t > 255:
            return NotImplemented
        dom = T.band(T.le(-MAXC, dc.t), T.le(-MAXC, vc.t), T.bnot(T.eq(vc.t, 0)))
        if not ex.proves(st, dom, 2000):
            return NotImplemented
        if n.t + vq.t > 36 + dp.t or n.t > 38:
            return NotImplemented
        BI._use("CONTRACT checked_div_rounded = rounding of the exact quotient at scale n, None iff not representable (obligation: C04 cdr cases)")
        key = _ckey("cdr", default_mode, dc.t, dp.t, vc.t, vq.t, n.t)
        if key in st.divcache:
            rr, ch = st.divcache[key][0], st.divcache[key][1]
        else:
            rr = T.fresh_int("cdr")
            ch = T.fresh_bool("minchoice")
            st.divcache[key] = (rr, ch, dc.t, vc.t)
            N, D = nd_ite(dc.t, dp.t, vc.t, vq.t, n.t)
            st.define((rr,), (rnd_rel(default_mode, N, D, rr),), heavy=True)
        some = EnumV("Option", 1, (IV(rr, "i128"),))
        none = EnumV("Option", 0)
        return _Alts([(z3.And(rr > I128_MIN, rr <= I128_MAX), some),
                      (z3.Or(rr > I128_MAX, rr < I128_MIN), none),
                      (z3.And(rr == I128_MIN, ch), some), (z3.And(rr == I128_MIN, z3.Not(ch)), none)])
    return c_cdr


def c_normalize(ex, st, fr, callee, args):
    """normalize(&mut coeff, &mut n): strips trailing decimal zeros (obligation: C03 'normalize' cases)"""
    rc, rn = args
    c = ex.read_ref(st, rc)
    n = ex.read_ref(st, rn)
    if not is_conc(n.t):
        return NotImplemented
    if is_conc(c.t):
        return NotImplemented
    BI._use("CONTRACT normalize: (c', n') with c = c'*10^(n-n'), n' = 0 or c' mod 10 != 0, (0,0) for 0 (obligation: C03 normalize cases)")
    n0 = int(n.t)
    from mir2smt.exec import Fork
    if st.tags.pop(("normalize_done", fr.uid, fr.bb), None):
        return UNIT
    nkey = ("norm", c.t.get_id(), n0)
    if nkey in st.divcache:
        # the same coefficient was normalised earlier on this path (differential runs): same result
        cj, nj = st.divcache[nkey][0], st.divcache[nkey][1]
        ex.write_ref(st, rc, IV(cj, "i128"))
        ex.write_ref(st, rn, IV(nj, "u8"))
        return UNIT
    forks = []
    zero = T.eq(c.t, 0)
    forks.append((zero, lambda s2: (ex.write_ref(s2, rc, IV(0, "i128")), ex.write_ref(s2, rn, IV(0, "u8")),
                                    s2.divcache.__setitem__(nkey, (0, 0, c.t)),
                                    s2.tags.__setitem__(("normalize_done", fr.uid, fr.bb), True))))
    for j in range(0, n0 + 1):
        cj = T.fresh_int("nz%d" % j)
        cond = z3.And(c.t != 0, c.t == cj * 10 ** j)
        if j < n0:
            cond = z3.And(cond, cj % 10 != 0)

        def fix(s2, j=j, cj=cj):
            ex.write_ref(s2, rc, IV(cj, "i128"))
            ex.write_ref(s2, rn, IV(n0 - j, "u8"))
            s2.divcache[nkey] = (cj, n0 - j, c.t)
            s2.tags[("normalize_done", fr.uid, fr.bb)] = True
        forks.append((cond, fix))
    raise Fork(forks, check=False)


def approx_rational_cut():
    """loop-invariant cut for the digit loop of from_float::approx_rational (proved at every visit before it is assumed)"""
    from mir2smt.exec import Cut

    def digit_loop_invariant(v, j, st_):
        d = T.I(v["divident"])
        k = st_.known(d >= 0)
        A = d if k is True else (-d if k is False else z3.If(d >= 0, d, -d))
        return [("coeff*divisor + rem = |divident|*10^%d" % j, T.I(v["coeff"]) * T.I(v["divisor"]) + T.I(v["rem"]) == A * 10 ** j),
                ("0 <= rem < divisor", z3.And(T.I(v["rem"]) >= 0, T.I(v["rem"]) < T.I(v["divisor"]))),
                ("coeff >= 0", T.I(v["coeff"]) >= 0)]
    return Cut(["coeff", "rem"], ["divident", "divisor"], digit_loop_invariant, mode="unroll")


# ---------------------------------------------------------------------------
# parser SWAR helpers (obligations: Kani harnesses chunk_contains_8_digits_all / chunk_to_u64_all over all u64, C06)
# ---------------------------------------------------------------------------

def _chunk_bytes(st, k):
    if is_conc(k.t):
        return [(k.t >> (8 * i)) & 255 for i in range(8)]
    ent = st.divcache.get(("chunk", k.t.get_id()))
    if ent is None:
        raise Unsupported("chunk without byte provenance")
    return ent[1]


def c_chunk_contains_8_digits(ex, st, fr, callee, args):
    BI._use("CONTRACT chunk_contains_8_digits(k) <=> all 8 bytes are ASCII digits (obligation: Kani harness over all u64)")
    bs = _chunk_bytes(st, args[0])
    conds = [T.band(T.le(48, b), T.le(b, 57)) for b in bs]
    allc = T.band(*conds)
    if isinstance(allc, bool):
        return allc
    from mir2smt.exec import decide_by_intervals
    d = decide_by_intervals(allc, st.tags.get("bnd", {}))
    if d is not None:
        return d
    return allc


def c_chunk_to_u64(ex, st, fr, callee, args):
    BI._use("CONTRACT chunk_to_u64(k) = decimal value of the 8 digits (obligation: Kani harness over all digit chunks)")
    bs = _chunk_bytes(st, args[0])
    v = 0
    for i, b in enumerate(bs):
        v = T.add(v, T.mul(T.sub(b, 48), 10 ** (7 - i)))
    return IV(v, "u64")


PARSER_CONTRACTS = {"chunk_contains_8_digits": c_chunk_contains_8_digits, "chunk_to_u64": c_chunk_to_u64}
