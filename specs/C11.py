"""C11 -- formatting with precision, width, fill, alignment and sign flags."""
from .common import *
from . import fmtlib as FL
from . import kernels as K

ID = "C11"
META = {
    "bounds": "Display::fmt with Formatter::precision() = None, Some(P) for every P in 0..=18 and a symbolic P >= 19 (any usize; the clamp to 18 is code under "
              "analysis), all 19 scales, all coefficients |c| <= 2^127-1, all 8 modes: the digits handed to core::fmt are those of c rounded once to min(P,18) digits "
              "(zero-extended when P exceeds the scale), sign flag = (c >= 0), empty prefix, template byte-identical to the documented one",
    "outside_claim": ["width, fill, alignment, '+' and '0' handling: entirely Formatter::pad_integral, Rust's documented integer formatting (only its arguments are checked); "
                      "a grid of precision x width x flags x modes is additionally rendered natively against a Python model in the co-simulation step",
                      "rendering of integers / zero padding inside core::fmt", "opt-level / LLVM"],
    "assumptions": ["builtin models listed in coverage.builtin_models", "contract i128_div_rounded (obligation C05 kernel cases)", "RoundingMode::default() = thread's mode (C19)"],
}


def configs(ctx):
    return [("dev", ["core", "main"])]


def cases(ctx):
    out = []
    for mode in range(8):
        out.append({"id": "display precision|mode=%d" % mode, "mode": mode, "weight": 20})
    out += rounding_kernel_obligations(ctx)
    return out


def run_case(ctx, case):
    if case.get("delegate"):
        return run_delegated(ctx, case)
    prog = ctx.program("dev")
    res = Res(case["id"])
    mode = case["mode"]
    ref = FL.reference_templates(ctx)
    f = [x for x in prog.fn_by_sig("fmt", ["&Decimal", "&mut Formatter<'_>"]) if x.src and x.src[1] >= 100][0]
    precs = [None] + list(range(19)) + ["big"]
    for p in range(19):
        for P in precs:
            st = State()
            d = sym_decimal("c", st, p)
            c = d.fields[0].t
            if P is None:
                prec = EnumV("Option", 0)
                Pe = p
            elif P == "big":
                pv = sym_int("P", "usize", st, lo=19)
                prec = EnumV("Option", 1, (pv,))
                Pe = 18
            else:
                prec = EnumV("Option", 1, (IV(P, "usize"),))
                Pe = P
            contracts = K.make_rounding_contracts(mode)
            ex = new_executor(ctx, prog, mode=mode, contracts={"i128_div_rounded": contracts["i128_div_rounded"]})
            outs = ex.explore(start_state(f, [ref_to(d), Opaque("Formatter", {"precision": prec})], None, st))
            res.absorb(ex, outs)
            for i, o in enumerate(outs):
                name = "%s|p=%d,P=%s|path%d:%s" % (case["id"], p, P, i, o.kind)
                extra = []
                goal = False
                if o.kind == "return":
                    goal, extra = judge(o, c, p, Pe, mode, ref)
                res.vc(ctx, name, o.state.pruned_constraints(goal, extra), goal, {"c": c}, {"p": p, "P": P, "mode": mode})
    return res.done()


def judge(o, c, p, Pe, mode, ref):
    try:
        pad = [x for x in o.state.obs if x[0] == "pad_integral"]
        if len(pad) != 1:
            return False, []
        _, nonneg, prefix, buf = pad[0]
        if FL.str_of(prefix) != "" or not (isinstance(buf, Opaque) and buf.tag == "String"):
            return False, []
        base = T.B(nonneg) == (c >= 0)
        # the value to show: r = c rounded to Pe digits (or zero-extended), as |r| split at 10^Pe
        extra = []
        if Pe < p:
            rr = T.fresh_int("rr")
            extra = [rnd_rel(mode, c, 10 ** (p - Pe), rr)]
            R = z3.If(rr >= 0, rr, -rr)
        else:
            R = z3.If(c >= 0, c, -c) * 10 ** (Pe - p)
        if Pe == 0:
            if buf.payload[0] != "int_to_string":
                return False, []
            return z3.And(base, T.I(buf.payload[1].t) == R), extra
        if buf.payload[0] != "format":
            return False, []
        tpl, args = buf.payload[1], buf.payload[2]
        vals = FL.arg_vals(args)
        if tpl != ref["t_disp"] or len(vals) != 3:
            return False, []
        it, ft, w = T.I(vals[0][2].t), T.I(vals[1][2].t), vals[2][2].t
        return z3.And(base, T.B(T.eq(w, Pe)), it * 10 ** Pe + ft == R, ft >= 0, ft < 10 ** Pe, it >= 0), extra
    except Unsupported:
        return False, []


def model_render(c, p, P, mode, width, flags):
    """Python model of format!("{:<flags><width>.<P>}", d) following the property statement"""
    Pe = p if P is None else min(P, 18)
    if Pe < p:
        r = abs(rnd_conc(mode, c, 10 ** (p - Pe)))
    else:
        r = abs(c) * 10 ** (Pe - p)
    body = str(r // 10 ** Pe) if Pe == 0 else "%d.%0*d" % (r // 10 ** Pe, Pe, r % 10 ** Pe)
    fill, align, plus, zero = " ", ">", False, False
    fl = flags
    if fl.startswith("*") or fl.startswith("#"):
        fill, fl = fl[0], fl[1:]
    if fl and fl[0] in "<^>":
        align, fl = fl[0], fl[1:]
    if "+" in fl:
        plus = True
    if "0" in fl:
        zero = True
    sign = "-" if c < 0 else ("+" if plus else "")
    w = width or 0
    if zero:
        return sign + body.rjust(max(w - len(sign), 0), "0")
    s = sign + body
    if len(s) >= w:
        return s
    padn = w - len(s)
    if align == "<":
        return s + fill * padn
    if align == "^":
        return fill * (padn // 2) + s + fill * (padn - padn // 2)
    return fill * padn + s


def replay(ctx, native, v):
    if v.get("info", {}).get("delegate"):
        return replay_delegated(ctx, native, v)
    c, p, P, mode = v["inputs"]["c"], v["info"]["p"], v["info"]["P"], v["info"]["mode"]
    Pn = None if P is None else (40 if P == "big" else P)
    # the counterexample fixes value, precision and mode; width and flags are environment inputs the VC leaves open, so a small grid of
    # them is rendered natively and compared with the statement's model
    first = None
    for w in (None, 0, 3, 12, 30, 60):
        for fl in ("", "+", "0", "+0", "<", "*^", ">+"):
            line = "%d fmt %s %s %s %s" % (mode, fmt_dec(c, p), "-" if Pn is None else str(Pn), "-" if w is None else w, fl if fl else "-")
            obs = native["dev"].ask(line)
            exp = "STR " + model_render(c, p, Pn, mode, w, fl)
            if first is None:
                first = (line, obs, exp)
            if obs != exp:
                return {"reproduced": True, "line": line, "observed": obs, "expected": exp, "profile": "dev"}
    return {"reproduced": False, "line": first[0], "observed": first[1], "expected": first[2], "profile": "dev"}


def confirm_known(ctx, native, ent):
    return False


def cosim(ctx, native):
    """precision x width x flags x modes rendered natively against the Python model of the statement"""
    import random
    rng = random.Random(ctx.seed + 1111)
    n = 0
    flagset = ["", "<", "^", ">", "0", "+", "+0", "*<", "*^", "*>", "#>", "<+", "^+", ">+", "*^+"]
    for _ in range(400 if ctx.tier == "quick" else 4000):
        p = rng.randint(0, 18)
        c = rng.choice([0, 1, -1, 5, -5, 15, -15, 25, 10 ** p, -(10 ** p) // 2, MAXC, -MAXC, rng.randint(-10 ** 20, 10 ** 20), rng.randint(-10 ** (p + 2), 10 ** (p + 2))])
        P = rng.choice([None, 0, 1, 2, p, max(p - 1, 0), p + 1, 17, 18, 19, 40])
        w = rng.choice([None, 0, 1, 5, 14, 30, 60])
        fl = rng.choice(flagset)
        mode = rng.randint(0, 7)
        obs = native["dev"].ask("%d fmt %s %s %s %s" % (mode, fmt_dec(c, p), "-" if P is None else P, "-" if w is None else w, fl if fl else "-"))
        exp = "STR " + model_render(c, p, P, mode, w, fl)
        if obs != exp:
            raise NativeViolation("%d fmt %s %s %s %s" % (mode, fmt_dec(c, p), "-" if P is None else P, "-" if w is None else w, fl if fl else "-"), obs, exp)
        n += 1
    return n
