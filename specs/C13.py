"""C13 -- f64 / f32 to Decimal yields the nearest 18-digit Decimal or a precise error."""
from .common import *
from . import kernels as K
from fractions import Fraction

ID = "C13"
META = {
    "bounds": "every bit pattern of f64 and f32, split by sign x biased exponent: zero/subnormal, NaN/inf, the far-underflow and far-overflow groups (symbolic exponent), "
              "and one class per exponent with 2^-126 <= ulp-exponent <= 2^127 (all of them, both tiers); the 52/23-bit fraction is symbolic; "
              "digit loop unrolled 19 with unwinding assertion (path-wise), with a proved loop-invariant cut at every iteration",
    "outside_claim": ["opt-level / LLVM", "f64/f32::to_bits, is_nan, is_infinite are modelled on the bit pattern"],
    "assumptions": ["builtin models listed in coverage.builtin_models", "contracts: normalize (obligation in C03), i128_magnitude (obligation: Kani harness in C15)"],
}
FT = {"f64": (52, 1075, 2047, 64), "f32": (23, 150, 255, 32)}


def configs(ctx):
    return [("dev", ["core", "main"])]


def exp_classes(ctx, fty):
    fb, off, emax, width = FT[fty]
    lo_e = off - 126          # first exponent with `exponent >= -126`
    hi_e = min(off + 127, emax - 1)
    allc = list(range(lo_e, hi_e + 1))
    if True:      # with the digit-loop invariant cut a class costs well under a second: all classes in both tiers
        return allc
    rng = __import__("random").Random(ctx.seed + (13 if fty == "f64" else 17))
    must = {lo_e, lo_e + 1, off - 64, off - 60, off - 53, off - 52, off - fb - 1, off - 30, off - 19, off - 18, off - 10, off - 2, off - 1, off, off + 1, off + 70,
            off + 74, off + 75, off + 103, off + 104, hi_e}
    neg = [e for e in allc if e < off and e not in must]
    rng.shuffle(neg)
    return sorted(e for e in (must | set(neg[:10])) if lo_e <= e <= hi_e)


def cases(ctx):
    out = []
    for fty in ("f64", "f32"):
        fb, off, emax, width = FT[fty]
        for neg in (0, 1):
            out.append({"id": "%s|sign=%d|zero-subnormal" % (fty, neg), "fty": fty, "neg": neg, "kind": "E", "E": 0, "weight": 5})
            out.append({"id": "%s|sign=%d|nan-inf" % (fty, neg), "fty": fty, "neg": neg, "kind": "E", "E": emax, "weight": 5})
            out.append({"id": "%s|sign=%d|far-underflow" % (fty, neg), "fty": fty, "neg": neg, "kind": "Erange", "lo": 1, "hi": off - 127, "weight": 5})
            if off + 128 <= emax - 1:
                out.append({"id": "%s|sign=%d|far-overflow" % (fty, neg), "fty": fty, "neg": neg, "kind": "Erange", "lo": off + 128, "hi": emax - 1, "weight": 5})
            cls = list(exp_classes(ctx, fty))
            # interleave the classes (stride order) so that a run cut short by the check budget still samples the whole exponent range
            stride = 37
            order = sorted(range(len(cls)), key=lambda i: (i % stride, i))
            for i in order:
                E = cls[i]
                out.append({"id": "%s|sign=%d|E=%d" % (fty, neg, E), "fty": fty, "neg": neg, "kind": "E", "E": E, "weight": 50 if E < off else 5})
    return out


def run_case(ctx, case):
    prog = ctx.program("dev")
    res = Res(case["id"])
    fty = case["fty"]
    fb, off, emax, width = FT[fty]
    neg = case["neg"]
    f = get_fn(prog, "try_from", [fty], "Result<Decimal, DecimalError>")
    st = State()
    F = sym_int("F", "u64", st, hi=(1 << fb) - 1)
    if case["kind"] == "Erange":
        Et = sym_int("E", "u64", st, lo=case["lo"], hi=case["hi"]).t
        hi_part = neg * (1 << (width - 1 - fb)) + Et
        bits = hi_part * (1 << fb) + F.t
        Ec = None
    else:
        Ec = case["E"]
        hi_c = neg * (1 << (width - 1 - fb)) + Ec
        bits = hi_c * (1 << fb) + F.t
        st.tags[("split", bits.get_id())] = (bits, fb, hi_c, F.t)
    contracts = {"normalize": K.c_normalize, "i128_magnitude": K.c_magnitude_alts}
    ex = new_executor(ctx, prog, contracts=contracts, unwind=25)

    def digit_loop_invariant(v, j, st_):
        d = T.I(v["divident"])
        k = st_.known(d >= 0)
        A = d if k is True else (-d if k is False else z3.If(d >= 0, d, -d))
        return [("coeff*divisor + rem = |divident|*10^%d" % j, T.I(v["coeff"]) * T.I(v["divisor"]) + T.I(v["rem"]) == A * 10 ** j),
                ("0 <= rem < divisor", z3.And(T.I(v["rem"]) >= 0, T.I(v["rem"]) < T.I(v["divisor"]))),
                ("coeff >= 0", T.I(v["coeff"]) >= 0)]
    from mir2smt.exec import Cut
    ex.cuts["approx_rational"] = Cut(["coeff", "rem"], ["divident", "divisor"], digit_loop_invariant, mode="unroll")
    st.mark_inputs()
    outs = ex.explore(start_state(f, [FV(bits, fty)], None, st))
    if ex.cut_log:
        bad = [c for c in ex.cut_log if len(c) > 2 and c[2] != "unsat"]
        res.d.setdefault("cuts", 0)
        res.d["cuts"] += len(ex.cut_log)
        if bad:
            res.sample({"vc": case["id"], "cut_invariant_not_proved": bad[:3]})
    res.absorb(ex, outs)
    sgn = -1 if neg else 1
    errs = prog.enums["DecimalError"]
    for i, o in enumerate(outs):
        name = "%s|path%d:%s" % (case["id"], i, o.kind if o.kind == "return" else panic_class(o))
        extra = []
        if o.kind != "return":
            goal = False      # no float input may panic
        else:
            v = o.value
            ok = v.variant == 0
            if ok:
                c, sc = dec_fields(v.fields[0])
                if not is_conc(sc):
                    raise Unsupported("symbolic scale")
                sc = int(sc)
            else:
                err = errs[v.fields[0].variant]
            if case["kind"] == "Erange":
                if case["lo"] == 1:
                    # |V| < 2^(fb+1) * 2^(hi - off) and 2 * that * 10^18 < 1 (checked here in exact arithmetic): V rounds to 0
                    assert Fraction(2 ** (fb + 1)) * Fraction(2) ** (case["hi"] - off) * 10 ** 18 * 2 < 1
                    goal = z3.And(T.I(c) == 0, T.B(sc == 0)) if ok else False
                else:
                    assert Fraction(2 ** fb) * Fraction(2) ** (case["lo"] - off) > I128_MAX
                    goal = T.B((not ok) and err == "InternalOverflow")
            elif Ec == emax:
                goal = z3.If(F.t == 0, T.B((not ok) and err == "InfiniteValue"), T.B((not ok) and err == "NotANumber"))
            else:
                if Ec == 0:
                    S, ee = F.t, 1 - off
                else:
                    S, ee = F.t + (1 << fb), Ec - off
                if ee >= 0:
                    I = S * (1 << ee)
                    # the value -2^127 (coefficient i128::MIN, outside Decimal::MIN..=MAX) may be returned or rejected
                    if ok:
                        goal = z3.And(T.I(c) == sgn * I, T.B(sc == 0), I <= I128_MAX + (1 if neg else 0))
                    else:
                        goal = z3.And(I > I128_MAX, T.B(err == "InternalOverflow"))
                else:
                    if not ok:
                        goal = False
                    else:
                        N = sgn * S * 10 ** 18
                        D = 1 << (-ee)
                        c18 = T.I(c) * 10 ** (18 - sc)
                        norm = z3.Or(T.B(sc == 0), T.I(c) % 10 != 0)
                        goal = z3.And(rnd_rel(5, N, D, c18), norm, z3.Implies(T.I(c) == 0, T.B(sc == 0)))
        r = res.vc(ctx, name, o.state.pruned_constraints(goal, extra), goal, {"F": F.t} if Ec is not None else {"F": F.t, "E": Et},
                   {"fty": fty, "neg": neg, "E": Ec})
        if i < 2:
            res.sample({"vc": name, "status": r.status, "time_s": round(r.time, 4)})
    return res.done()


def expected(fty, bits):
    fb, off, emax, width = FT[fty]
    neg = bits >> (width - 1)
    E = (bits >> fb) & emax
    F = bits & ((1 << fb) - 1)
    if E == emax:
        return ("ERR", "InfiniteValue" if F == 0 else "NotANumber")
    S, ee = (F, 1 - off) if E == 0 else (F + (1 << fb), E - off)
    sgn = -1 if neg else 1
    if ee >= 0:
        I = S << ee
        if neg and I == I128_MAX + 1:
            return ("OK", -I, 0)
        return ("OK", sgn * I, 0) if I <= I128_MAX else ("ERR", "InternalOverflow")
    c18 = rnd_conc(5, sgn * S * 10 ** 18, 1 << (-ee))
    n = 18
    if c18 == 0:
        return ("OK", 0, 0)
    while n > 0 and c18 % 10 == 0:
        c18 //= 10
        n -= 1
    return ("OK", c18, n)


def replay(ctx, native, v):
    info = v["info"]
    fty = info["fty"]
    fb, off, emax, width = FT[fty]
    E = info["E"] if info["E"] is not None else v["inputs"]["E"]
    bits = (info["neg"] << (width - 1)) | (E << fb) | v["inputs"]["F"]
    line = "5 from_%s %d" % (fty, bits)
    obs = parse_native(native["dev"].ask(line))
    exp = expected(fty, bits)
    return {"reproduced": obs != exp, "line": line, "observed": obs, "expected": exp, "profile": "dev"}


def confirm_known(ctx, native, ent):
    return False


def cosim(ctx, native):
    import random, struct
    rng = random.Random(ctx.seed + 1313)
    prog = ctx.program("dev")
    n = 0
    for fty in ("f64", "f32"):
        fb, off, emax, width = FT[fty]
        f = get_fn(prog, "try_from", [fty], "Result<Decimal, DecimalError>")
        samples = [0, 1 << (width - 1), (emax << fb), (emax << fb) | 1, 1]
        for _ in range(40):
            E = rng.choice([rng.randint(off - 126, off + 10), rng.randint(0, emax), off - 1, off, off - 60])
            samples.append((rng.randint(0, 1) << (width - 1)) | (E << fb) | rng.choice([0, 1, (1 << fb) - 1, rng.randint(0, (1 << fb) - 1), 1 << (fb - 1)]))
        # one vector with a random fraction in every exponent class the symbolic cases distinguish (both signs alternating): a change
        # that goes wrong throughout a class shows up here within seconds, whatever it does to the cost of the symbolic cases
        for i, E in enumerate(exp_classes(ctx, fty)):
            samples.append(((i & 1) << (width - 1)) | (E << fb) | rng.randint(0, (1 << fb) - 1))
        for bits in samples:
            ex = new_executor(ctx, prog, unwind=25)
            outs = ex.explore(start_state(f, [FV(bits, fty)]))
            assert len(outs) == 1, outs
            o = outs[0]
            if o.kind == "panic":
                mine = ("PANIC",)
            elif o.value.variant == 0:
                mine = ("OK", int(o.value.fields[0].fields[0].t), int(o.value.fields[0].fields[1].t))
            else:
                mine = ("ERR", prog.enums["DecimalError"][o.value.fields[0].variant])
            obs = parse_native(native["dev"].ask("5 from_%s %d" % (fty, bits)))
            if obs[0] == "PANIC":
                obs = ("PANIC",)
            if obs != mine:
                raise RuntimeError("MIR interpreter %r vs native %r for %s bits %d" % (mine, obs, fty, bits))
            if obs != expected(fty, bits):
                raise NativeViolation("5 from_%s %d" % (fty, bits), obs, expected(fty, bits))
            n += 1
    return n
