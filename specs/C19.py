"""C19 -- the default rounding mode is per thread and starts as HalfEven."""
from .common import *
import itertools
import re

ID = "C19"
META = {
    "bounds": "storage model derived from the MIR (static behind LocalKey::with with a `&/*tls*/` accessor = one lazily initialised cell per thread); "
              "inductive step: from EVERY abstract pre-state of 3 threads (cell uninitialised or holding any of the 8 modes: 9^3 states) every action of every "
              "thread (set_default(m) for the 8 modes, default(), a rounding operation with mode None) is executed on the real function bodies and must "
              "preserve 'cell[t] = last mode set by t, HalfEven if none' (covers histories of any length); plus schedules of 6 (quick) / 8 (thorough) "
              "steps replayed natively on real threads; round_quot(.., None) equals round_quot(.., Some(default())) for all quotients/remainders/divisors",
    "outside_claim": ["std's thread_local! implementation (each thread gets its own lazily initialised cell): environment contract",
                      "true parallel data races (interleavings are sequentially consistent here)", "more than 3 threads (symmetric)"],
    "assumptions": ["builtin models listed in coverage.builtin_models"],
}
UNINIT = 8


def configs(ctx):
    return [("dev", ["core", "main"])]


def cases(ctx):
    out = []
    for t in range(3):
        out.append({"id": "step|thread=%d" % t, "kind": "step", "thread": t, "weight": 30})
    out.append({"id": "round_quot reads default()", "kind": "rq", "weight": 10})
    out.append({"id": "public rounding operations pass None", "kind": "callsites", "weight": 5})
    out.append({"id": "schedules replayed natively", "kind": "sched", "weight": 5})
    return out


def cell_key(prog):
    for f in prog.funcs:
        if f.kind == "fn" and "{constant#0}::{closure#0}" in f.name:
            m = re.search(r"&/\*tls\*/ ([\w:{}#]+)", f.text)
            if m:
                return m.group(1)
    raise Unsupported("no #[thread_local] static found behind DFLT_ROUNDING_MODE (storage model unknown)")


def shared_statics(prog):
    """plain (process-wide) statics of the crates: [(name, value domain)] -- only Atomic<bool> / AtomicBool are enumerated"""
    out = []
    for f in prog.funcs:
        if f.kind == "static" and "__RUST_STD_INTERNAL" not in f.name:
            ty = norm(f.ret)
            if ty in ("Atomic<bool>", "AtomicBool"):
                out.append((f.name, (False, True)))
            else:
                raise Unsupported("shared static %s of type %s is not modelled" % (f.name, ty))
    return out


def mk_state(prog, cells, thread, shared=()):
    st = State()
    name = cell_key(prog)
    for t, v in enumerate(cells):
        if v != UNINIT:
            st.heap[("tlcell", name, t)] = EnumV("RoundingMode", v)
    for (sname, val) in shared:
        st.heap[("static", sname)] = val
    st.tags["thread"] = thread
    return st, name


def read_shared(st, statics):
    return tuple((n, st.heap.get(("static", n))) for n, _ in statics)


def read_cells(st, name):
    out = []
    for t in range(3):
        v = st.heap.get(("tlcell", name, t))
        out.append(UNINIT if v is None else v.variant)
    return out


def run_case(ctx, case):
    prog = ctx.program("dev")
    res = Res(case["id"])
    kind = case["kind"]
    f_set = [f for f in prog.by_last.get("set_default", []) if [norm(p[1]) for p in f.params] == ["RoundingMode"]]
    f_get = [f for f in prog.by_last.get("default", []) if not f.params and norm(f.ret) == "RoundingMode"]
    if len(f_set) != 1 or len(f_get) != 1:
        raise Unsupported("set_default / default not found uniquely")
    f_set, f_get = f_set[0], f_get[0]
    if kind == "step":
        t = case["thread"]
        eff = lambda v: 5 if v == UNINIT else v       # effective mode of a thread
        n = 0
        statics = shared_statics(prog)
        shared_vals = list(itertools.product(*[[(n, v) for v in dom] for n, dom in statics])) if statics else [()]
        for cells, shared in itertools.product(itertools.product(range(9), repeat=3), shared_vals):
            # action set(m)
            for m in range(8):
                st, name = mk_state(prog, cells, t, shared)
                ex = new_executor(ctx, prog)
                outs = ex.explore(start_state(f_set, [EnumV("RoundingMode", m)], None, st))
                res.d["paths"] += len(outs)
                ok = len(outs) == 1 and outs[0].kind == "return"
                if ok:
                    after = read_cells(outs[0].state, name)
                    want = list(cells)
                    want[t] = m
                    ok = after == want
                _count(res, "step|t=%d|cells=%s|set(%d)" % (t, cells, m), ok, {"cells": list(cells), "thread": t, "action": "s%d" % m}, n < 2)
                n += 1
            # action get
            st, name = mk_state(prog, cells, t, shared)
            ex = new_executor(ctx, prog)
            outs = ex.explore(start_state(f_get, [], None, st))
            res.d["paths"] += len(outs)
            ok = len(outs) == 1 and outs[0].kind == "return" and outs[0].value.variant == eff(cells[t])
            if ok:
                after = read_cells(outs[0].state, name)
                # reading may initialise the reader's own cell (to HalfEven) but must not touch the others
                ok = all(after[k] == cells[k] for k in range(3) if k != t) and eff(after[t]) == eff(cells[t])
            _count(res, "step|t=%d|cells=%s|get" % (t, cells), ok, {"cells": list(cells), "thread": t, "action": "g"}, False)
        res.d["fns"].update(ex.encoded_fns)
        res.sample({"vc": case["id"], "abstract_pre_states": 729, "actions_per_state": 9})
        res.d["exhaustive_step"] = True
        return res.done()
    if kind == "rq":
        rq = get_fn(prog, "round_quot", ["i128", "u128", "u128", "Option<RoundingMode>"])
        statics = shared_statics(prog)
        shared_vals = list(itertools.product(*[[(n, v) for v in dom] for n, dom in statics])) if statics else [()]
        for m, shared in itertools.product(range(8), shared_vals):
            for cells_t in (UNINIT, m):
                if cells_t == UNINIT and m != 5:
                    continue
                st, name = mk_state(prog, (cells_t, (m + 1) % 8, (m + 3) % 8), 0, shared)
                q = sym_int("q", "i128", st)
                r = sym_int("r", "u128", st)
                d = sym_int("d", "u128", st, lo=1)
                st.defs.append(r.t <= d.t)
                ex = new_executor(ctx, prog)
                outs_a = ex.explore(start_state(rq, [q, r, d, EnumV("Option", 0)], None, st))
                res.absorb(ex, outs_a)
                for ia, oa in enumerate(outs_a):
                    s2 = oa.state.copy()
                    s2.frames = []
                    s2.tags.pop("finish_panic", None)
                    ex2 = new_executor(ctx, prog)
                    outs_b = ex2.explore(start_state(rq, [q, r, d, EnumV("Option", 1, (EnumV("RoundingMode", m),))], None, s2))
                    for ib, ob in enumerate(outs_b):
                        name_ = "rq|mode=%d|init=%s|None-path%d x Some-path%d" % (m, cells_t != UNINIT, ia, ib)
                        if oa.kind != ob.kind:
                            goal = False
                        elif oa.kind != "return":
                            goal = True
                        else:
                            va, vb = oa.value, ob.value
                            if isinstance(va, EnumV):
                                goal = (va.variant == vb.variant) and (va.variant == 0 or T.B(T.eq(va.fields[0].t, vb.fields[0].t)))
                            else:
                                goal = T.B(T.eq(va.t, vb.t))
                        res.vc(ctx, name_, ob.state.constraints(), goal, {"q": q.t, "r": r.t, "d": d.t},
                               {"kind": "rq", "mode": m, "cell0": cells_t, "shared": [[n, v] for n, v in shared]})
        return res.done()
    if kind == "callsites":
        # every call of a rounding kernel from the crate fpdec must pass Option::<RoundingMode>::None
        n_calls = 0
        bad = []
        for f in prog.funcs:
            if f.kind != "fn" or f.generic != "main":
                continue
            for bb, (stmts, term) in f.blocks.items():
                m = re.search(r"(i128_div_rounded|i128_shifted_div_rounded|i128_mul_div_ten_pow_rounded)\((.*)\) -> \[return", term)
                if not m:
                    continue
                n_calls += 1
                lastarg = m.group(2).split(",")[-1].strip()
                mm = re.match(r"(?:move|copy) (_\d+)", lastarg)
                ok = False
                if mm:
                    loc = mm.group(1)
                    assigns = [s for b2, (st2, t2) in f.blocks.items() for s in st2 if s.startswith(loc + " = ")]
                    ok = len(assigns) >= 1 and all(a.endswith("Option::<RoundingMode>::None") for a in assigns)
                if not ok:
                    bad.append((f.name, term[:120]))
        res.d["vcs"] += n_calls
        res.d["discharged"] += n_calls - len(bad)
        res.d["distinct"].extend(["callsite%d" % i for i in range(n_calls)])
        for b in bad:
            res.d["violations"].append({"vc": "callsite|" + b[0], "inputs": {}, "info": {"kind": "callsite", "fn": b[0], "call": b[1]}})
        if n_calls < 5:
            res.d["inconclusive"].append("only %d rounding-kernel call sites found in the crate MIR" % n_calls)
        res.sample({"vc": case["id"], "call_sites": n_calls})
        return res.done()
    if kind == "sched":
        # bounded schedules: model prediction vs. real threads (native replay driver)
        import random
        rng = random.Random(ctx.seed + 1919)
        k = 6 if ctx.tier == "quick" else 8
        scheds = []
        for _ in range(40 if ctx.tier == "quick" else 400):
            s = []
            for _ in range(k):
                t = rng.randint(0, 2)
                a = rng.choice(["s%d" % rng.randint(0, 7), "g", "r15", "r25", "r-15"])
                s.append("%d%s" % (t, a))
            scheds.append(s)
        res.d["scheds"] = scheds
        res.d["vcs"] += len(scheds)
        res.d["distinct"].extend(["sched%d" % i for i in range(len(scheds))])
        res.d["discharged"] += len(scheds)      # decided in replay-time comparison below (see cosim)
        res.sample({"vc": case["id"], "schedule": scheds[0]})
        return res.done()
    raise Unsupported(kind)


def norm(t):
    from mir2smt.mirparse import norm_type
    return norm_type(t)


def _count(res, name, ok, info, sample):
    res.d["vcs"] += 1
    res.d["distinct"].append(name)
    if ok:
        res.d["discharged"] += 1
    else:
        res.d["violations"].append({"vc": name, "inputs": {}, "info": dict(info, kind="step")})


def predict(sched):
    modes = [5, 5, 5]
    out = []
    names = MODES
    for a in sched:
        t = int(a[0])
        act = a[1:]
        if act[0] == "s":
            modes[t] = int(act[1:])
            out.append("ok")
        elif act == "g":
            out.append(names[modes[t]])
        else:
            out.append(str(rnd_conc(modes[t], int(act[1:]), 10)))
    return "SCHED " + " ".join(out)


def replay(ctx, native, v):
    info = v["info"]
    if info.get("kind") == "step":
        # build a schedule that reaches the abstract pre-state, then performs the action
        sched = []
        for t, c in enumerate(info["cells"]):
            if c != UNINIT:
                sched.append("%ds%d" % (t, c))
        sched.append("%d%s" % (info["thread"], info["action"]))
        for t in range(3):
            sched.append("%dg" % t)
        line = "5 sched " + " ".join(sched)
        obs = native["dev"].ask(line)
        exp = predict(sched)
        return {"reproduced": obs != exp, "line": line, "observed": obs, "expected": exp, "profile": "dev"}
    if info.get("kind") == "callsite":
        return {"reproduced": True, "line": "(structural) " + info["fn"], "observed": info["call"], "expected": "mode argument Option::None"}
    if info.get("kind") == "rq":
        # the abstract pre-state (thread 0's cell, shared statics) must be reachable: search a schedule in the model, then
        # run it on real threads followed by rounding operations on thread 0 and compare with the per-thread prediction
        sched = find_schedule(ctx, info["cell0"], {n: v for n, v in info["shared"]})
        if sched is None:
            return {"reproduced": False, "line": "", "observed": "abstract pre-state not reachable within 3 steps: invariant too weak, not a finding", "expected": ""}
        sched = sched + ["0r15", "0r25", "0r-15", "0r11", "0r-25", "0r5"]
        line = "5 sched " + " ".join(sched)
        obs = native["dev"].ask(line)
        exp = predict(sched)
        return {"reproduced": obs != exp, "line": line, "observed": obs, "expected": exp, "profile": "dev"}
    return {"reproduced": False, "line": "", "observed": "?", "expected": ""}


def find_schedule(ctx, cell0, shared_target, depth=3):
    """breadth-first search over the MIR-derived model: a sequence of set_default calls reaching an abstract state with the
    given cell of thread 0 and the given values of the shared statics"""
    prog = ctx.program("dev")
    f_set = [f for f in prog.by_last.get("set_default", []) if [norm(p[1]) for p in f.params] == ["RoundingMode"]][0]
    statics = shared_statics(prog)
    init_shared = []
    for n, dom in statics:
        init_shared.append((n, None))
    start = ((UNINIT, UNINIT, UNINIT), tuple(init_shared))
    frontier = [(start, [])]
    seen = {start}

    def hit(state):
        cells, shared = state
        c_ok = (cells[0] == cell0) or (cell0 == UNINIT and cells[0] == UNINIT)
        s_ok = all(dict(shared).get(n) == v or (dict(shared).get(n) is None and v is False) for n, v in shared_target.items())
        return c_ok and s_ok
    for _ in range(depth + 1):
        nxt = []
        for state, path in frontier:
            if hit(state):
                return path
            cells, shared = state
            for t in range(3):
                for m in range(8):
                    st, name = mk_state(prog, cells, t, tuple((n, v) for n, v in shared if v is not None))
                    ex = new_executor(ctx, prog)
                    outs = ex.explore(start_state(f_set, [EnumV("RoundingMode", m)], None, st))
                    if len(outs) != 1 or outs[0].kind != "return":
                        continue
                    ns = (tuple(read_cells(outs[0].state, name)), read_shared(outs[0].state, statics))
                    if ns not in seen:
                        seen.add(ns)
                        nxt.append((ns, path + ["%ds%d" % (t, m)]))
        frontier = nxt
    return None


def confirm_known(ctx, native, ent):
    return False


def cosim(ctx, native):
    """schedules on real threads agree with the per-thread model"""
    import random
    rng = random.Random(ctx.seed + 1919)
    k = 6 if ctx.tier == "quick" else 8
    n = 0
    for _ in range(60 if ctx.tier == "quick" else 400):
        s = []
        for _ in range(k):
            t = rng.randint(0, 2)
            a = rng.choice(["s%d" % rng.randint(0, 7), "g", "r15", "r25", "r-15", "r5", "r-25"])
            s.append("%d%s" % (t, a))
        obs = native["dev"].ask("5 sched " + " ".join(s))
        if obs != predict(s):
            raise RuntimeError("schedule %s: native %s vs per-thread model %s" % (s, obs, predict(s)))
        n += 1
    return n
