"""C19 -- the default rounding mode is per thread and starts as HalfEven."""
from .common import *
import itertools
import re

ID = "C19"
META = {
    "bounds": "storage model derived from the MIR (every thread_local! key behind LocalKey::with - lazy or const initialiser, Cell or RefCell content - is one cell per "
              "thread; statics with atomics are one cell shared by all threads); step argument over the breadth-first closure of the thread-local states one thread "
              "can reach by its own set_default(m) / default() calls from 'nothing initialised', the shared statics ranging over their whole domain at every step, with the "
              "ghost 'mode last set by this thread': every action returns, default() returns the ghost's mode (HalfEven if none), the other two threads' cells are "
              "untouched (covers histories of any length and any interleaving with other threads' actions); in every reached state every fpdec-core function with an "
              "Option<RoundingMode> parameter behaves with None exactly as with Some(ghost's mode), for all other arguments (power-of-ten shifts: quick {0,1,19,38}, "
              "thorough all 39); every public rounding call site passes None; schedules of 6 (quick) / 8 (thorough) steps replayed natively on real threads",
    "outside_claim": ["std's thread_local! implementation (each thread gets its own lazily initialised cell): environment contract",
                      "true parallel data races (interleavings are sequentially consistent here)", "more than 3 threads (symmetric)"],
    "assumptions": ["builtin models listed in coverage.builtin_models"],
}
UNINIT = 8


def configs(ctx):
    return [("dev", ["core", "main"])]


def cases(ctx):
    out = []
    for t in range(3):
        out.append({"id": "step|thread=%d" % t, "kind": "step", "thread": t, "weight": 30})
    prog = ctx.program("dev")
    for f in rq_functions(prog):
        out.append({"id": "rounding entry point %s: None = Some(default()) on the calling thread" % f.name.split("::")[-1], "kind": "rq", "fn": f.name, "weight": 40})
    out.append({"id": "public rounding operations pass None", "kind": "callsites", "weight": 5})
    out.append({"id": "schedules replayed natively", "kind": "sched", "weight": 5})
    return out


def rq_functions(prog):
    fns = [f for f in prog.funcs if f.kind == "fn" and f.generic == "core" and any(norm(t) == "Option<RoundingMode>" for _, t in f.params)
           and "closure" not in f.name]
    if len(fns) < 3:
        raise Unsupported("only %d functions with an Option<RoundingMode> parameter found in fpdec-core" % len(fns))
    return sorted(fns, key=lambda f: f.name)


def sig(v):
    """structural signature of a value (terms by their s-expression)"""
    if isinstance(v, EnumV):
        return ("E", v.ty, v.variant, tuple(sig(x) for x in v.fields))
    if isinstance(v, Agg):
        return ("A", tuple(sig(x) for x in v.fields))
    if isinstance(v, IV):
        return ("I", v.ty, v.t.sexpr() if hasattr(v.t, "sexpr") else repr(v.t))
    if hasattr(v, "sexpr"):
        return ("T", v.sexpr())
    return ("R", repr(v))


def cell_key(prog):
    for f in prog.funcs:
        if f.kind == "fn" and "{constant#0}::{closure#0}" in f.name:
            m = re.search(r"&/\*tls\*/ ([\w:{}#]+)", f.text)
            if m:
                return m.group(1)
    raise Unsupported("no #[thread_local] static found behind DFLT_ROUNDING_MODE (storage model unknown)")


def shared_statics(prog):
    """plain (process-wide) statics of the crates: [(name, value domain)] -- only Atomic<bool> / AtomicBool are enumerated"""
    out = []
    for f in prog.funcs:
        if f.kind == "static" and "__RUST_STD_INTERNAL" not in f.name:
            ty = norm(f.ret)
            if ty in ("Atomic<bool>", "AtomicBool"):
                out.append((f.name, (False, True)))
            else:
                raise Unsupported("shared static %s of type %s is not modelled" % (f.name, ty))
    return out


def mk_state(prog, cells, thread, shared=()):
    """state with the main rounding-mode cell of each of 3 threads given as a mode index (UNINIT = no cell yet); used by the schedule search"""
    st = State()
    name = cell_key(prog)
    for t, v in enumerate(cells):
        if v != UNINIT:
            st.heap[("tlcell", name, t)] = EnumV("RoundingMode", v)
    for (sname, val) in shared:
        st.heap[("static", sname)] = val
    st.tags["thread"] = thread
    return st, name


def read_shared(st, statics):
    return tuple((n, st.heap.get(("static", n))) for n, _ in statics)


def read_cells(st, name):
    out = []
    for t in range(3):
        v = st.heap.get(("tlcell", name, t))
        out.append(UNINIT if v is None else v.variant)
    return out


def local_of(st, t):
    """all thread-local cells of thread t: {static name: value}"""
    return {k[1]: v for k, v in st.heap.items() if isinstance(k, tuple) and len(k) == 3 and k[0] == "tlcell" and k[2] == t}


def lsig(local):
    return tuple(sorted((n, repr(sig(v))) for n, v in local.items()))


def install(st, local, t):
    for n, v in local.items():
        st.heap[("tlcell", n, t)] = v


def state_for(prog, local, t, shared, others=None):
    """thread t has the thread-local cells `local`; the other two threads hold `others` (default: a copy of `local`) so that an
    action of t that touches another thread's storage is noticed"""
    st = State()
    for u in range(3):
        install(st, local if (u == t or others is None) else others, u)
    for (sname, val) in shared:
        if val is not None:
            st.heap[("static", sname)] = val
    st.tags["thread"] = t
    return st


def eff(ghost):
    return 5 if ghost is None else ghost      # RoundHalfEven until the thread sets a mode


def reachable(ctx, prog, t, f_set, f_get, shared_vals, res=None, limit=400):
    """breadth-first closure of the thread-local states of thread t under its own actions set_default(m) / default(), from 'nothing
    initialised'; the shared statics range over their whole domain at every step (another thread may have changed them).  Each state
    carries the ghost value 'mode last set by this thread'.  Returns [(local, ghost, path)] and, through `res`, the step obligations:
    every action returns normally, default() returns the ghost's mode, no action changes another thread's cells."""
    start = ({}, None)
    seen = {(lsig({}), None): ({}, None, [])}
    frontier = [start + ([],)]
    bad = []
    n_exec = 0
    while frontier:
        nxt = []
        for local, ghost, path in frontier:
            for shared in shared_vals:
                for act in list(range(8)) + ["g"]:
                    st = state_for(prog, local, t, shared)
                    before_others = [lsig(local_of(st, u)) for u in range(3) if u != t]
                    ex = new_executor(ctx, prog)
                    if act == "g":
                        outs = ex.explore(start_state(f_get, [], None, st))
                    else:
                        outs = ex.explore(start_state(f_set, [EnumV("RoundingMode", act)], None, st))
                    n_exec += 1
                    name = "step|t=%d|local=%s|ghost=%s|shared=%s|%s" % (t, dict(lsig(local)), ghost, dict(shared), "get" if act == "g" else "set(%d)" % act)
                    ok = len(outs) == 1 and outs[0].kind == "return"
                    if ok and act == "g":
                        ok = isinstance(outs[0].value, EnumV) and outs[0].value.variant == eff(ghost)
                    if ok:
                        after_others = [lsig(local_of(outs[0].state, u)) for u in range(3) if u != t]
                        ok = after_others == before_others
                    if res is not None:
                        res.d["paths"] += len(outs)
                        res.d["fns"].update(ex.encoded_fns)
                        _count(res, name, ok, {"path": path, "thread": t, "action": "g" if act == "g" else "s%d" % act, "shared": [[n, v] for n, v in shared]}, False)
                    if not ok or len(outs) != 1 or outs[0].kind != "return":
                        continue
                    nl = local_of(outs[0].state, t)
                    ng = ghost if act == "g" else act
                    key = (lsig(nl), ng)
                    if key not in seen:
                        seen[key] = (nl, ng, path + ["%d%s" % (t, "g" if act == "g" else "s%d" % act)])
                        nxt.append(seen[key])
                        if len(seen) > limit:
                            raise Unsupported("more than %d reachable thread-local states" % limit)
        frontier = nxt
    return list(seen.values()), n_exec


def run_case(ctx, case):
    prog = ctx.program("dev")
    res = Res(case["id"])
    kind = case["kind"]
    f_set = [f for f in prog.by_last.get("set_default", []) if [norm(p[1]) for p in f.params] == ["RoundingMode"]]
    f_get = [f for f in prog.by_last.get("default", []) if not f.params and norm(f.ret) == "RoundingMode"]
    if len(f_set) != 1 or len(f_get) != 1:
        raise Unsupported("set_default / default not found uniquely")
    f_set, f_get = f_set[0], f_get[0]
    if kind == "step":
        t = case["thread"]
        statics = shared_statics(prog)
        shared_vals = list(itertools.product(*[[(n, v) for v in dom] for n, dom in statics])) if statics else [()]
        states, n_exec = reachable(ctx, prog, t, f_set, f_get, shared_vals, res)
        res.sample({"vc": case["id"], "reachable_thread_local_states": len(states), "executions": n_exec,
                    "thread_local_cells": sorted({n for l, _, _ in states for n in l}), "shared_statics": [n for n, _ in statics]})
        res.d["exhaustive_step"] = True
        return res.done()
    if kind == "rq":
        # every function of fpdec-core that takes an Option<RoundingMode> (round_quot and the public rounding entry points): called with
        # None on a thread whose mode is m it must behave exactly as when called with Some(m) -- whatever the internal structure
        # (which function reads the thread-local) is.  Differential by sequential composition on the same symbolic operands.
        from . import kernels as K
        rq = [f for f in rq_functions(prog) if f.name == case["fn"]][0]
        statics = shared_statics(prog)
        shared_vals = list(itertools.product(*[[(n, v) for v in dom] for n, dom in statics])) if statics else [()]
        ks = list(range(39)) if ctx.tier == "thorough" else [0, 1, 19, 38]
        ptys = [norm(t) for _, t in rq.params]
        small = [i for i, t in enumerate(ptys) if t == "u8"]
        n_struct = n_solver = 0
        states, _ = reachable(ctx, prog, 0, f_set, f_get, shared_vals)
        for (local, ghost, path), shared, kval in itertools.product(states, shared_vals, ks if small else [None]):
            m = eff(ghost)
            cells_t = lsig(local)
            if True:

                def setup():
                    T._fresh[0] = 1000
                    st = state_for(prog, local, 0, shared, others={})
                    args, inputs = [], {}
                    for i, t in enumerate(ptys):
                        if t == "Option<RoundingMode>":
                            args.append(None)
                        elif t == "u8":
                            args.append(IV(kval, "u8"))
                        else:
                            a = sym_int("a%d" % i, t, st, lo=(-MAXC if t == "i128" else None))
                            inputs["a%d" % i] = a.t
                            args.append(a)
                    if rq.name.endswith("round_quot"):
                        st.defs.append(args[2].t >= 1)
                        st.defs.append(args[1].t <= args[2].t)
                    return st, args, inputs
                mi = ptys.index("Option<RoundingMode>")
                none_v = EnumV("Option", 0)
                some_v = EnumV("Option", 1, (EnumV("RoundingMode", m),))
                info = {"kind": "rq", "mode": m, "path": path, "shared": [[n, v] for n, v in shared], "fn": rq.name.split("::")[-1]}
                tag = "rq|%s|k=%s|mode=%d|local=%s|shared=%s" % (rq.name.split("::")[-1], kval, m, dict(cells_t), dict(shared))
                # (1) structural identity: both calls executed from identical symbolic states with identical fresh-name counters; if the
                # mode is resolved to the same concrete value, every path condition and result is the same term
                st_a, args_a, inputs = setup()
                args_a[mi] = none_v
                ex = new_executor(ctx, prog, contracts=K.WIDE_CONTRACTS)
                outs_a = ex.explore(start_state(rq, args_a, None, st_a))
                res.absorb(ex, outs_a)
                st_b, args_b, _ = setup()
                args_b[mi] = some_v
                ex_b = new_executor(ctx, prog, contracts=K.WIDE_CONTRACTS)
                outs_b = ex_b.explore(start_state(rq, args_b, None, st_b))

                def osig(o):
                    return (o.kind, o.msg if o.kind == "panic" else sig(o.value), tuple(c.sexpr() if hasattr(c, "sexpr") else repr(c) for c in o.state.constraints()))
                same = len(outs_a) == len(outs_b) and all(osig(a) == osig(b) for a, b in zip(outs_a, outs_b))
                res.d["vcs"] += 1
                if same and outs_a:
                    res.d["discharged"] += 1
                    n_struct += 1
                    if n_struct <= 4:
                        res.d["distinct"] += [tag + "|structural", tag + "|structural|paths=%d" % len(outs_a)]
                    continue
                # (2) not syntactically the same computation: pairwise differential decided by the solver
                n_solver += 1
                res.d["discharged"] += 1      # the structural obligation is replaced by the VCs below
                st, args, inputs = setup()
                a_none = list(args)
                a_none[mi] = none_v
                a_some = list(args)
                a_some[mi] = some_v
                ex = new_executor(ctx, prog, contracts=K.WIDE_CONTRACTS)
                outs_a = ex.explore(start_state(rq, a_none, None, st))
                for ia, oa in enumerate(outs_a):
                    s2 = oa.state.copy()
                    s2.frames = []
                    s2.tags.pop("finish_panic", None)
                    ex2 = new_executor(ctx, prog, contracts=K.WIDE_CONTRACTS)
                    outs_b = ex2.explore(start_state(rq, a_some, None, s2))
                    for ib, ob in enumerate(outs_b):
                        name_ = "%s|None-path%d x Some-path%d" % (tag, ia, ib)
                        if oa.kind != ob.kind:
                            goal = False
                        elif oa.kind != "return":
                            goal = True
                        else:
                            va, vb = oa.value, ob.value
                            if isinstance(va, EnumV):
                                goal = (va.variant == vb.variant) and (va.variant == 0 or T.B(T.eq(va.fields[0].t, vb.fields[0].t)))
                            else:
                                goal = T.B(T.eq(va.t, vb.t))
                        res.vc(ctx, name_, ob.state.constraints(), goal, inputs, info, timeout_ms=5000)
        res.sample({"vc": case["id"], "shift_values": ks if small else None, "decided_structurally": n_struct, "decided_by_pairwise_solver_differential": n_solver})
        return res.done()
    if kind == "callsites":
        # every call of a rounding kernel from the crate fpdec must pass Option::<RoundingMode>::None
        n_calls = 0
        bad = []
        for f in prog.funcs:
            if f.kind != "fn" or f.generic != "main":
                continue
            for bb, (stmts, term) in f.blocks.items():
                m = re.search(r"(i128_div_rounded|i128_shifted_div_rounded|i128_mul_div_ten_pow_rounded)\((.*)\) -> \[return", term)
                if not m:
                    continue
                n_calls += 1
                lastarg = m.group(2).split(",")[-1].strip()
                mm = re.match(r"(?:move|copy) (_\d+)", lastarg)
                ok = False
                if mm:
                    loc = mm.group(1)
                    assigns = [s for b2, (st2, t2) in f.blocks.items() for s in st2 if s.startswith(loc + " = ")]
                    ok = len(assigns) >= 1 and all(a.endswith("Option::<RoundingMode>::None") for a in assigns)
                if not ok:
                    bad.append((f.name, term[:120]))
        res.d["vcs"] += n_calls
        res.d["discharged"] += n_calls - len(bad)
        res.d["distinct"].extend(["callsite%d" % i for i in range(n_calls)])
        for b in bad:
            res.d["violations"].append({"vc": "callsite|" + b[0], "inputs": {}, "info": {"kind": "callsite", "fn": b[0], "call": b[1]}})
        if n_calls < 5:
            res.d["inconclusive"].append("only %d rounding-kernel call sites found in the crate MIR" % n_calls)
        res.sample({"vc": case["id"], "call_sites": n_calls})
        return res.done()
    if kind == "sched":
        # bounded schedules: model prediction vs. real threads (native replay driver)
        import random
        rng = random.Random(ctx.seed + 1919)
        k = 6 if ctx.tier == "quick" else 8
        scheds = []
        for _ in range(40 if ctx.tier == "quick" else 400):
            s = []
            for _ in range(k):
                t = rng.randint(0, 2)
                a = rng.choice(["s%d" % rng.randint(0, 7), "g", "r15", "r25", "r-15", "w15", "w-5", "v3", "v-3"])
                s.append("%d%s" % (t, a))
            scheds.append(s)
        res.d["scheds"] = scheds
        res.d["vcs"] += len(scheds)
        res.d["distinct"].extend(["sched%d" % i for i in range(len(scheds))])
        res.d["discharged"] += len(scheds)      # decided in replay-time comparison below (see cosim)
        res.sample({"vc": case["id"], "schedule": scheds[0]})
        return res.done()
    raise Unsupported(kind)


def norm(t):
    from mir2smt.mirparse import norm_type
    return norm_type(t)


def _count(res, name, ok, info, sample):
    res.d["vcs"] += 1
    res.d["distinct"].append(name)
    if ok:
        res.d["discharged"] += 1
    else:
        res.d["violations"].append({"vc": name, "inputs": {}, "info": dict(info, kind="step")})


def predict(sched):
    modes = [5, 5, 5]
    out = []
    names = MODES
    for a in sched:
        t = int(a[0])
        act = a[1:]
        if act[0] == "s":
            modes[t] = int(act[1:])
            out.append("ok")
        elif act == "g":
            out.append(names[modes[t]])
        elif act[0] == "w":
            # wide product: (k/10) * (10^38 + 1)/10^18 rounded to 18 digits -> i128_mul_div_ten_pow_rounded
            out.append(str(rnd_conc(modes[t], int(act[1:]) * (10 ** 38 + 1), 10)))
        elif act[0] == "v":
            # wide dividend: (k * 10^37) / (4 * 10^37) rounded to 1 digit -> i128_shifted_div_rounded
            out.append(str(rnd_conc(modes[t], int(act[1:]) * 10 ** 38, 4 * 10 ** 37)))
        else:
            out.append(str(rnd_conc(modes[t], int(act[1:]), 10)))
    return "SCHED " + " ".join(out)


def simulate(ctx, prog, f_set, f_get, actions):
    """run a schedule of set/get actions in the MIR-derived storage model; returns the final state or None"""
    st = State()
    for a in actions:
        t, act = int(a[0]), a[1:]
        st.tags["thread"] = t
        st.frames = []
        ex = new_executor(ctx, prog)
        if act == "g":
            outs = ex.explore(start_state(f_get, [], None, st))
        else:
            outs = ex.explore(start_state(f_set, [EnumV("RoundingMode", int(act[1:]))], None, st))
        if len(outs) != 1 or outs[0].kind != "return":
            return None
        st = outs[0].state
        st.pc, st.frames = [], []
    return st


def find_schedule(ctx, t, path, shared_target):
    """a schedule on real threads that brings thread t through `path` with the shared statics at `shared_target` afterwards: the
    other thread's set_default calls (at most two, before or after the path) are searched in the model"""
    prog = ctx.program("dev")
    f_set = [f for f in prog.by_last.get("set_default", []) if [norm(p[1]) for p in f.params] == ["RoundingMode"]][0]
    f_get = [f for f in prog.by_last.get("default", []) if not f.params and norm(f.ret) == "RoundingMode"][0]
    statics = shared_statics(prog)
    o = (t + 1) % 3
    one = [["%ds%d" % (o, m)] for m in range(8)]
    two = [a + b for a in one for b in one]
    cands = [[]] + one + two
    for pre in cands:
        for post in ([[]] + one if pre == [] or len(pre) == 1 else [[]]):
            sched = pre + list(path) + post
            st = simulate(ctx, prog, f_set, f_get, sched)
            if st is None:
                continue
            got = dict(read_shared(st, statics))
            if all(got.get(n) == v or (got.get(n) is None and v in (False, None)) for n, v in shared_target.items()):
                return sched
    return None


def replay(ctx, native, v):
    info = v["info"]
    if info.get("kind") == "callsite":
        return {"reproduced": True, "line": "(structural) " + info["fn"], "observed": info["call"], "expected": "mode argument Option::None"}
    if info.get("kind") in ("step", "rq"):
        # the pre-state (thread-local state reached by `path`, shared statics) must be reachable on real threads: search the other
        # thread's part of the schedule in the model, then run it natively, followed by the action / rounding operations, and compare
        # with the per-thread prediction of the property
        t = info.get("thread", 0)
        sched = find_schedule(ctx, t, info.get("path", []), {n: v_ for n, v_ in info.get("shared", [])})
        if sched is None:
            return {"reproduced": False, "line": "", "observed": "pre-state not reachable by a schedule of the searched shape (over-approximated shared statics): not a finding", "expected": ""}
        if info["kind"] == "step":
            sched = sched + ["%d%s" % (t, info["action"])] + ["%dg" % u for u in range(3)] + ["%dr15" % t, "%dr25" % t]
        else:
            sched = sched + ["%d%s" % (t, a) for a in ("g", "r15", "r25", "r-15", "r11", "r-25", "r5", "w15", "w-15", "w5", "w11", "w-5", "v3", "v-3", "v5", "v7", "v1")]
        line = "5 sched " + " ".join(sched)
        obs = native["dev"].ask(line)
        exp = predict(sched)
        return {"reproduced": obs != exp, "line": line, "observed": obs, "expected": exp, "profile": "dev"}
    return {"reproduced": False, "line": "", "observed": "?", "expected": ""}


def confirm_known(ctx, native, ent):
    return False


def cosim(ctx, native):
    """schedules on real threads agree with the per-thread model"""
    import random
    rng = random.Random(ctx.seed + 1919)
    k = 6 if ctx.tier == "quick" else 8
    n = 0
    for _ in range(60 if ctx.tier == "quick" else 400):
        s = []
        for _ in range(k):
            t = rng.randint(0, 2)
            a = rng.choice(["s%d" % rng.randint(0, 7), "g", "r15", "r25", "r-15", "r5", "r-25", "w15", "w-15", "w11", "v3", "v-3", "v5", "v1"])
            s.append("%d%s" % (t, a))
        obs = native["dev"].ask("5 sched " + " ".join(s))
        if obs != predict(s):
            raise NativeViolation("5 sched " + " ".join(s), obs, predict(s))
        n += 1
    return n
