"""C19 -- the default rounding mode is per thread and starts as HalfEven."""
from .common import *
import itertools
import re

ID = "C19"
META = {
    "bounds": "storage model derived from the MIR (static behind LocalKey::with with a `&/*tls*/` accessor = one lazily initialised cell per thread); "
              "inductive step: from EVERY abstract pre-state of 3 threads (cell uninitialised or holding any of the 8 modes: 9^3 states) every action of every "
              "thread (set_default(m) for the 8 modes, default(), a rounding operation with mode None) is executed on the real function bodies and must "
              "preserve 'cell[t] = last mode set by t, HalfEven if none' (covers histories of any length); plus schedules of 6 (quick) / 8 (thorough) "
              "steps replayed natively on real threads; round_quot(.., None) equals round_quot(.., Some(default())) for all quotients/remainders/divisors",
    "outside_claim": ["std's thread_local! implementation (each thread gets its own lazily initialised cell): environment contract",
                      "true parallel data races (interleavings are sequentially consistent here)", "more than 3 threads (symmetric)"],
    "assumptions": ["builtin models listed in coverage.builtin_models"],
}
UNINIT = 8


def configs(ctx):
    return [("dev", ["core", "main"])]


def cases(ctx):
    out = []
    for t in range(3):
        out.append({"id": "step|thread=%d" % t, "kind": "step", "thread": t, "weight": 30})
    prog = ctx.program("dev")
    for f in rq_functions(prog):
        out.append({"id": "rounding entry point %s: None = Some(default()) on the calling thread" % f.name.split("::")[-1], "kind": "rq", "fn": f.name, "weight": 40})
    out.append({"id": "public rounding operations pass None", "kind": "callsites", "weight": 5})
    out.append({"id": "schedules replayed natively", "kind": "sched", "weight": 5})
    return out


def rq_functions(prog):
    fns = [f for f in prog.funcs if f.kind == "fn" and f.generic == "core" and any(norm(t) == "Option<RoundingMode>" for _, t in f.params)
           and "closure" not in f.name]
    if len(fns) < 3:
        raise Unsupported("only %d functions with an Option<RoundingMode> parameter found in fpdec-core" % len(fns))
    return sorted(fns, key=lambda f: f.name)


def sig(v):
    """structural signature of a value (terms by their s-expression)"""
    if isinstance(v, EnumV):
        return ("E", v.ty, v.variant, tuple(sig(x) for x in v.fields))
    if isinstance(v, Agg):
        return ("A", tuple(sig(x) for x in v.fields))
    if isinstance(v, IV):
        return ("I", v.ty, v.t.sexpr() if hasattr(v.t, "sexpr") else repr(v.t))
    if hasattr(v, "sexpr"):
        return ("T", v.sexpr())
    return ("R", repr(v))


def cell_key(prog):
    for f in prog.funcs:
        if f.kind == "fn" and "{constant#0}::{closure#0}" in f.name:
            m = re.search(r"&/\*tls\*/ ([\w:{}#]+)", f.text)
            if m:
                return m.group(1)
    raise Unsupported("no #[thread_local] static found behind DFLT_ROUNDING_MODE (storage model unknown)")


def shared_statics(prog):
    """plain (process-wide) statics of the crates: [(name, value domain)] -- only Atomic<bool> / AtomicBool are enumerated"""
    out = []
    for f in prog.funcs:
        if f.kind == "static" and "__RUST_STD_INTERNAL" not in f.name:
            ty = norm(f.ret)
            if ty in ("Atomic<bool>", "AtomicBool"):
                out.append((f.name, (False, True)))
            else:
                raise Unsupported("shared static %s of type %s is not modelled" % (f.name, ty))
    return out


def mk_state(prog, cells, thread, shared=()):
    st = State()
    name = cell_key(prog)
    for t, v in enumerate(cells):
        if v != UNINIT:
            st.heap[("tlcell", name, t)] = EnumV("RoundingMode", v)
    for (sname, val) in shared:
        st.heap[("static", sname)] = val
    st.tags["thread"] = thread
    return st, name


def read_shared(st, statics):
    return tuple((n, st.heap.get(("static", n))) for n, _ in statics)


def read_cells(st, name):
    out = []
    for t in range(3):
        v = st.heap.get(("tlcell", name, t))
        out.append(UNINIT if v is None else v.variant)
    return out


def run_case(ctx, case):
    prog = ctx.program("dev")
    res = Res(case["id"])
    kind = case["kind"]
    f_set = [f for f in prog.by_last.get("set_default", []) if [norm(p[1]) for p in f.params] == ["RoundingMode"]]
    f_get = [f for f in prog.by_last.get("default", []) if not f.params and norm(f.ret) == "RoundingMode"]
    if len(f_set) != 1 or len(f_get) != 1:
        raise Unsupported("set_default / default not found uniquely")
    f_set, f_get = f_set[0], f_get[0]
    if kind == "step":
        t = case["thread"]
        eff = lambda v: 5 if v == UNINIT else v       # effective mode of a thread
        n = 0
        statics = shared_statics(prog)
        shared_vals = list(itertools.product(*[[(n, v) for v in dom] for n, dom in statics])) if statics else [()]
        for cells, shared in itertools.product(itertools.product(range(9), repeat=3), shared_vals):
            # action set(m)
            for m in range(8):
                st, name = mk_state(prog, cells, t, shared)
                ex = new_executor(ctx, prog)
                outs = ex.explore(start_state(f_set, [EnumV("RoundingMode", m)], None, st))
                res.d["paths"] += len(outs)
                ok = len(outs) == 1 and outs[0].kind == "return"
                if ok:
                    after = read_cells(outs[0].state, name)
                    want = list(cells)
                    want[t] = m
                    ok = after == want
                _count(res, "step|t=%d|cells=%s|set(%d)" % (t, cells, m), ok, {"cells": list(cells), "thread": t, "action": "s%d" % m}, n < 2)
                n += 1
            # action get
            st, name = mk_state(prog, cells, t, shared)
            ex = new_executor(ctx, prog)
            outs = ex.explore(start_state(f_get, [], None, st))
            res.d["paths"] += len(outs)
            ok = len(outs) == 1 and outs[0].kind == "return" and outs[0].value.variant == eff(cells[t])
            if ok:
                after = read_cells(outs[0].state, name)
                # reading may initialise the reader's own cell (to HalfEven) but must not touch the others
                ok = all(after[k] == cells[k] for k in range(3) if k != t) and eff(after[t]) == eff(cells[t])
            _count(res, "step|t=%d|cells=%s|get" % (t, cells), ok, {"cells": list(cells), "thread": t, "action": "g"}, False)
        res.d["fns"].update(ex.encoded_fns)
        res.sample({"vc": case["id"], "abstract_pre_states": 729, "actions_per_state": 9})
        res.d["exhaustive_step"] = True
        return res.done()
    if kind == "rq":
        # every function of fpdec-core that takes an Option<RoundingMode> (round_quot and the public rounding entry points): called with
        # None on a thread whose mode is m it must behave exactly as when called with Some(m) -- whatever the internal structure
        # (which function reads the thread-local) is.  Differential by sequential composition on the same symbolic operands.
        from . import kernels as K
        rq = [f for f in rq_functions(prog) if f.name == case["fn"]][0]
        statics = shared_statics(prog)
        shared_vals = list(itertools.product(*[[(n, v) for v in dom] for n, dom in statics])) if statics else [()]
        ks = list(range(39)) if ctx.tier == "thorough" else [0, 1, 19, 38]
        ptys = [norm(t) for _, t in rq.params]
        small = [i for i, t in enumerate(ptys) if t == "u8"]
        n_struct = n_solver = 0
        for m, shared, kval in itertools.product(range(8), shared_vals, ks if small else [None]):
            for cells_t in (UNINIT, m):
                if cells_t == UNINIT and m != 5:
                    continue

                def setup():
                    T._fresh[0] = 1000
                    st, name = mk_state(prog, (cells_t, (m + 1) % 8, (m + 3) % 8), 0, shared)
                    args, inputs = [], {}
                    for i, t in enumerate(ptys):
                        if t == "Option<RoundingMode>":
                            args.append(None)
                        elif t == "u8":
                            args.append(IV(kval, "u8"))
                        else:
                            a = sym_int("a%d" % i, t, st, lo=(-MAXC if t == "i128" else None))
                            inputs["a%d" % i] = a.t
                            args.append(a)
                    if rq.name.endswith("round_quot"):
                        st.defs.append(args[2].t >= 1)
                        st.defs.append(args[1].t <= args[2].t)
                    return st, args, inputs
                mi = ptys.index("Option<RoundingMode>")
                none_v = EnumV("Option", 0)
                some_v = EnumV("Option", 1, (EnumV("RoundingMode", m),))
                info = {"kind": "rq", "mode": m, "cell0": cells_t, "shared": [[n, v] for n, v in shared], "fn": rq.name.split("::")[-1]}
                tag = "rq|%s|k=%s|mode=%d|init=%s" % (rq.name.split("::")[-1], kval, m, cells_t != UNINIT)
                # (1) structural identity: both calls executed from identical symbolic states with identical fresh-name counters; if the
                # mode is resolved to the same concrete value, every path condition and result is the same term
                st_a, args_a, inputs = setup()
                args_a[mi] = none_v
                ex = new_executor(ctx, prog, contracts=K.WIDE_CONTRACTS)
                outs_a = ex.explore(start_state(rq, args_a, None, st_a))
                res.absorb(ex, outs_a)
                st_b, args_b, _ = setup()
                args_b[mi] = some_v
                ex_b = new_executor(ctx, prog, contracts=K.WIDE_CONTRACTS)
                outs_b = ex_b.explore(start_state(rq, args_b, None, st_b))

                def osig(o):
                    return (o.kind, o.msg if o.kind == "panic" else sig(o.value), tuple(c.sexpr() if hasattr(c, "sexpr") else repr(c) for c in o.state.constraints()))
                same = len(outs_a) == len(outs_b) and all(osig(a) == osig(b) for a, b in zip(outs_a, outs_b))
                res.d["vcs"] += 1
                if same and outs_a:
                    res.d["discharged"] += 1
                    n_struct += 1
                    if n_struct <= 4:
                        res.d["distinct"] += [tag + "|structural", tag + "|structural|paths=%d" % len(outs_a)]
                    continue
                # (2) not syntactically the same computation: pairwise differential decided by the solver
                n_solver += 1
                res.d["discharged"] += 1      # the structural obligation is replaced by the VCs below
                st, args, inputs = setup()
                a_none = list(args)
                a_none[mi] = none_v
                a_some = list(args)
                a_some[mi] = some_v
                ex = new_executor(ctx, prog, contracts=K.WIDE_CONTRACTS)
                outs_a = ex.explore(start_state(rq, a_none, None, st))
                for ia, oa in enumerate(outs_a):
                    s2 = oa.state.copy()
                    s2.frames = []
                    s2.tags.pop("finish_panic", None)
                    ex2 = new_executor(ctx, prog, contracts=K.WIDE_CONTRACTS)
                    outs_b = ex2.explore(start_state(rq, a_some, None, s2))
                    for ib, ob in enumerate(outs_b):
                        name_ = "%s|None-path%d x Some-path%d" % (tag, ia, ib)
                        if oa.kind != ob.kind:
                            goal = False
                        elif oa.kind != "return":
                            goal = True
                        else:
                            va, vb = oa.value, ob.value
                            if isinstance(va, EnumV):
                                goal = (va.variant == vb.variant) and (va.variant == 0 or T.B(T.eq(va.fields[0].t, vb.fields[0].t)))
                            else:
                                goal = T.B(T.eq(va.t, vb.t))
                        res.vc(ctx, name_, ob.state.constraints(), goal, inputs, info, timeout_ms=5000)
        res.sample({"vc": case["id"], "shift_values": ks if small else None, "decided_structurally": n_struct, "decided_by_pairwise_solver_differential": n_solver})
        return res.done()
    if kind == "callsites":
        # every call of a rounding kernel from the crate fpdec must pass Option::<RoundingMode>::None
        n_calls = 0
        bad = []
        for f in prog.funcs:
            if f.kind != "fn" or f.generic != "main":
                continue
            for bb, (stmts, term) in f.blocks.items():
                m = re.search(r"(i128_div_rounded|i128_shifted_div_rounded|i128_mul_div_ten_pow_rounded)\((.*)\) -> \[return", term)
                if not m:
                    continue
                n_calls += 1
                lastarg = m.group(2).split(",")[-1].strip()
                mm = re.match(r"(?:move|copy) (_\d+)", lastarg)
                ok = False
                if mm:
                    loc = mm.group(1)
                    assigns = [s for b2, (st2, t2) in f.blocks.items() for s in st2 if s.startswith(loc + " = ")]
                    ok = len(assigns) >= 1 and all(a.endswith("Option::<RoundingMode>::None") for a in assigns)
                if not ok:
                    bad.append((f.name, term[:120]))
        res.d["vcs"] += n_calls
        res.d["discharged"] += n_calls - len(bad)
        res.d["distinct"].extend(["callsite%d" % i for i in range(n_calls)])
        for b in bad:
            res.d["violations"].append({"vc": "callsite|" + b[0], "inputs": {}, "info": {"kind": "callsite", "fn": b[0], "call": b[1]}})
        if n_calls < 5:
            res.d["inconclusive"].append("only %d rounding-kernel call sites found in the crate MIR" % n_calls)
        res.sample({"vc": case["id"], "call_sites": n_calls})
        return res.done()
    if kind == "sched":
        # bounded schedules: model prediction vs. real threads (native replay driver)
        import random
        rng = random.Random(ctx.seed + 1919)
        k = 6 if ctx.tier == "quick" else 8
        scheds = []
        for _ in range(40 if ctx.tier == "quick" else 400):
            s = []
            for _ in range(k):
                t = rng.randint(0, 2)
                a = rng.choice(["s%d" % rng.randint(0, 7), "g", "r15", "r25", "r-15", "w15", "w-5", "v3", "v-3"])
                s.append("%d%s" % (t, a))
            scheds.append(s)
        res.d["scheds"] = scheds
        res.d["vcs"] += len(scheds)
        res.d["distinct"].extend(["sched%d" % i for i in range(len(scheds))])
        res.d["discharged"] += len(scheds)      # decided in replay-time comparison below (see cosim)
        res.sample({"vc": case["id"], "schedule": scheds[0]})
        return res.done()
    raise Unsupported(kind)


def norm(t):
    from mir2smt.mirparse import norm_type
    return norm_type(t)


def _count(res, name, ok, info, sample):
    res.d["vcs"] += 1
    res.d["distinct"].append(name)
    if ok:
        res.d["discharged"] += 1
    else:
        res.d["violations"].append({"vc": name, "inputs": {}, "info": dict(info, kind="step")})


def predict(sched):
    modes = [5, 5, 5]
    out = []
    names = MODES
    for a in sched:
        t = int(a[0])
        act = a[1:]
        if act[0] == "s":
            modes[t] = int(act[1:])
            out.append("ok")
        elif act == "g":
            out.append(names[modes[t]])
        elif act[0] == "w":
            # wide product: (k/10) * (10^38 + 1)/10^18 rounded to 18 digits -> i128_mul_div_ten_pow_rounded
            out.append(str(rnd_conc(modes[t], int(act[1:]) * (10 ** 38 + 1), 10)))
        elif act[0] == "v":
            # wide dividend: (k * 10^37) / (4 * 10^37) rounded to 1 digit -> i128_shifted_div_rounded
            out.append(str(rnd_conc(modes[t], int(act[1:]) * 10 ** 38, 4 * 10 ** 37)))
        else:
            out.append(str(rnd_conc(modes[t], int(act[1:]), 10)))
    return "SCHED " + " ".join(out)


def replay(ctx, native, v):
    info = v["info"]
    if info.get("kind") == "step":
        # build a schedule that reaches the abstract pre-state, then performs the action
        sched = []
        for t, c in enumerate(info["cells"]):
            if c != UNINIT:
                sched.append("%ds%d" % (t, c))
        sched.append("%d%s" % (info["thread"], info["action"]))
        for t in range(3):
            sched.append("%dg" % t)
        line = "5 sched " + " ".join(sched)
        obs = native["dev"].ask(line)
        exp = predict(sched)
        return {"reproduced": obs != exp, "line": line, "observed": obs, "expected": exp, "profile": "dev"}
    if info.get("kind") == "callsite":
        return {"reproduced": True, "line": "(structural) " + info["fn"], "observed": info["call"], "expected": "mode argument Option::None"}
    if info.get("kind") == "rq":
        # the abstract pre-state (thread 0's cell, shared statics) must be reachable: search a schedule in the model, then
        # run it on real threads followed by rounding operations on thread 0 and compare with the per-thread prediction
        sched = find_schedule(ctx, info["cell0"], {n: v for n, v in info["shared"]})
        if sched is None:
            return {"reproduced": False, "line": "", "observed": "abstract pre-state not reachable within 3 steps: invariant too weak, not a finding", "expected": ""}
        sched = sched + ["0r15", "0r25", "0r-15", "0r11", "0r-25", "0r5", "0w15", "0w-15", "0w5", "0w11", "0w-5", "0v3", "0v-3", "0v5", "0v7", "0v1"]
        line = "5 sched " + " ".join(sched)
        obs = native["dev"].ask(line)
        exp = predict(sched)
        return {"reproduced": obs != exp, "line": line, "observed": obs, "expected": exp, "profile": "dev"}
    return {"reproduced": False, "line": "", "observed": "?", "expected": ""}


def find_schedule(ctx, cell0, shared_target, depth=3):
    """breadth-first search over the MIR-derived model: a sequence of set_default calls reaching an abstract state with the
    given cell of thread 0 and the given values of the shared statics"""
    prog = ctx.program("dev")
    f_set = [f for f in prog.by_last.get("set_default", []) if [norm(p[1]) for p in f.params] == ["RoundingMode"]][0]
    statics = shared_statics(prog)
    init_shared = []
    for n, dom in statics:
        init_shared.append((n, None))
    start = ((UNINIT, UNINIT, UNINIT), tuple(init_shared))
    frontier = [(start, [])]
    seen = {start}

    def hit(state):
        cells, shared = state
        c_ok = (cells[0] == cell0) or (cell0 == UNINIT and cells[0] == UNINIT)
        s_ok = all(dict(shared).get(n) == v or (dict(shared).get(n) is None and v is False) for n, v in shared_target.items())
        return c_ok and s_ok
    for _ in range(depth + 1):
        nxt = []
        for state, path in frontier:
            if hit(state):
                return path
            cells, shared = state
            for t in range(3):
                for m in range(8):
                    st, name = mk_state(prog, cells, t, tuple((n, v) for n, v in shared if v is not None))
                    ex = new_executor(ctx, prog)
                    outs = ex.explore(start_state(f_set, [EnumV("RoundingMode", m)], None, st))
                    if len(outs) != 1 or outs[0].kind != "return":
                        continue
                    ns = (tuple(read_cells(outs[0].state, name)), read_shared(outs[0].state, statics))
                    if ns not in seen:
                        seen.add(ns)
                        nxt.append((ns, path + ["%ds%d" % (t, m)]))
        frontier = nxt
    return None


def confirm_known(ctx, native, ent):
    return False


def cosim(ctx, native):
    """schedules on real threads agree with the per-thread model"""
    import random
    rng = random.Random(ctx.seed + 1919)
    k = 6 if ctx.tier == "quick" else 8
    n = 0
    for _ in range(60 if ctx.tier == "quick" else 400):
        s = []
        for _ in range(k):
            t = rng.randint(0, 2)
            a = rng.choice(["s%d" % rng.randint(0, 7), "g", "r15", "r25", "r-15", "r5", "r-25", "w15", "w-15", "w11", "v3", "v-3", "v5", "v1"])
            s.append("%d%s" % (t, a))
        obs = native["dev"].ask("5 sched " + " ".join(s))
        if obs != predict(s):
            raise RuntimeError("schedule %s: native %s vs per-thread model %s" % (s, obs, predict(s)))
        n += 1
    return n
