"""C09 -- Hash agrees with equality; as_integer_ratio is the reduced fraction."""
from .common import *
from mir2smt.exec import Cut, _Alts

ID = "C09"
META = {
    "bounds": "gcd_special: inductive loop-invariant cut (no bound on width or trip count): base case, preservation by one arbitrary iteration, decreasing variant, "
              "exit, for every denom_exp 1..=18 and every numerator 1 <= |c| <= 2^127-1; as_integer_ratio / numerator / denominator / Hash::hash for all scales",
    "outside_claim": ["reducedness gcd(n, d) = 1 and 'equal values have equal reduced pairs' are arithmetic consequences of g = gcd(|c|, 10^p) (stated, not encoded)",
                      "the Hasher implementation (std) and the Hash impl of (i128, i128) (core)", "opt-level / LLVM"],
    "assumptions": ["builtin models listed in coverage.builtin_models",
                    "ground instances of gcd facts (trusted): gcd(a,0)=a; gcd(a,b)=gcd(b,a); gcd(a,b)=gcd(a,b-a) for b>=a; gcd(a, b*2^k)=gcd(a,b) for odd a; "
                    "gcd(u*2^i, 10^e) = 2^min(i,e) * gcd(u, 5^e) for odd u; gcd(a,b) divides a and b (hence 1 <= gcd(a,b) <= b for b > 0)"],
}
gcd = z3.Function("gcd", z3.IntSort(), z3.IntSort(), z3.IntSort())


def configs(ctx):
    return [("dev", ["core", "main"])]


def cases(ctx):
    out = []
    for e in range(1, 19):
        out.append({"id": "gcd_special|e=%d|odd numerator: base, preservation, exit" % e, "kind": "gcd", "e": e, "utz": 0, "weight": 60})
        ks = list(range(1, 127)) if ctx.tier == "thorough" else sorted({1, 2, e - 1, e, e + 1, 17, 18, 19, 63, 64, 126} - {0})
        out.append({"id": "gcd_special|e=%d|even numerators: base and exit" % e, "kind": "gcd", "e": e, "utz": ks, "weight": 20})
    out += [{"id": "gcd_special|preconditions", "kind": "gcdpre", "weight": 1}]
    for meth in ("as_integer_ratio", "numerator", "denominator", "hash"):
        out.append({"id": "%s|all scales" % meth, "kind": "ratio", "meth": meth, "weight": 10})
    return out


def run_gcd(ctx, prog, res, case):
    if isinstance(case["utz"], list):
        for k in case["utz"]:
            run_gcd_one(ctx, prog, res, case, k)
        return res.done()
    run_gcd_one(ctx, prog, res, case, case["utz"])
    return res.done()


def run_gcd_one(ctx, prog, res, case, utz_class):
    """utz_class = 0: numerator odd, full inductive argument (base, preservation of one arbitrary iteration, variant, exit).
    utz_class = k > 0: numerator = odd * 2^k: base case and exit path only (the loop body does not depend on the numerator's
    trailing zeros once the state is havoc'ed, so preservation is the obligation proved in the class 0 run); the exit condition
    v == 0 is assumed after the havoc and is itself confirmed by the class 0 run, where the exit path is explored unassumed."""
    e = case["e"]
    f = get_fn(prog, "gcd_special", ["i128", "u32"], "i128")
    st = State()
    numer = sym_int("c", "i128", st, lo=-MAXC)
    st.defs.append(numer.t != 0)
    modd = z3.Int("modd")
    st.defs.append(z3.Or(numer.t == (2 * modd + 1) * (1 << utz_class), -numer.t == (2 * modd + 1) * (1 << utz_class)))
    st.defs.append(modd >= 0)
    G0 = z3.Int("G0")
    info = {"kind": "gcd", "e": e}

    def invariant(v, visit, st_):
        u, vv = T.I(v["u"]), T.I(v["v"])
        fm = [("u odd", u % 2 == 1), ("1 <= u < 2^127", z3.And(u >= 1, u <= MAXC)), ("0 <= v < 2^127", z3.And(vv >= 0, vv <= MAXC)),
              ("gcd(u, v) = G0", gcd(u, vv) == G0)]
        if visit >= 1:
            pre = st_.tags["cut_pre"]
            up, vp = pre["u"], pre["v"]
            # ground instances of the gcd facts for the terms one loop iteration can produce
            inst = []
            k = st_.tags.get("last_tz")
            ks = [k] if k is not None else list(range(0, 127))
            for cand in (vv + u, u):            # candidates for v' = v_pre with its trailing zeros stripped (no swap / swap)
                for k in ks:
                    inst.append(z3.Implies(z3.And(up % 2 == 1, cand * (1 << k) == vp), gcd(up, vp) == gcd(up, cand)))
                inst.append(gcd(up, cand) == gcd(cand, up))
                inst.append(z3.Implies(z3.And(cand >= up, up >= 1), gcd(up, cand) == gcd(up, cand - up)))
                inst.append(z3.Implies(z3.And(up >= cand, cand >= 1), gcd(cand, up) == gcd(cand, up - cand)))
            st_.defs.extend(inst)
            fm.append(("variant u + v decreases", u + vv < up + vp))
        return fm

    links = []     # (u0, v0, path constraints, utz) at every first arrival at the loop head
    ex = new_executor(ctx, prog, unwind=6)
    ex.cuts["gcd_special"] = Cut(["u", "v"], [], invariant, mode="inductive",
                                 assume_after=(lambda nv: T.I(nv["v"]) == 0) if utz_class > 0 else None)
    # base fact tying G0 to the initial loop state is added when the first cut is taken: G0 := gcd(u0, v0)
    orig_do_cut = ex.do_cut

    def do_cut(st_, fr, cut, visit):
        if visit == 0 and "G0_defined" not in st_.tags:
            u0 = ex.local_by_name(st_, fr, "u").t
            v0 = ex.local_by_name(st_, fr, "v").t
            st_.defs.append(G0 == gcd(T.I(u0), T.I(v0)))
            st_.defs.append(z3.And(G0 >= 1, G0 <= T.I(v0)))        # gcd(a, b) divides b > 0
            st_.tags["G0_defined"] = (u0, v0)
            links.append((u0, v0, list(st_.defs) + list(st_.pc), ex.local_by_name(st_, fr, "utz").t))
            st_.tags["utz"] = ex.local_by_name(st_, fr, "utz").t
            # everything known at loop entry (u0 odd, ranges) stays available after the havoc
            st_.mark_inputs_keep = True
            st_.tags["base"] = (list(st_.defs) + list(st_.pc), dict(st_.true_ids), dict(st_.false_ids), list(st_.groups))
        return orig_do_cut(st_, fr, cut, visit)
    ex.do_cut = do_cut
    st.mark_inputs()
    outs = ex.explore(start_state(f, [numer, IV(e, "u32")], None, st))
    res.absorb(ex, outs)
    n_closed = 0
    for i, o in enumerate(outs):
        name = "%s|utz=%d|path%d:%s" % (case["id"], utz_class, i, o.kind if o.kind != "panic" else panic_class(o))
        if o.kind == "cutclosed":
            n_closed += 1
            res.d["vcs"] += 1
            res.d["discharged"] += 1
            if n_closed <= 3:
                res.d["distinct"].append(name)
            continue
        if o.kind == "panic":
            goal = False
            r = res.vc(ctx, name, o.state.constraints(), goal, {"c": numer.t}, info)
            if r.status == "sat" and o.msg and o.msg.startswith("CUT"):
                res.d["violations"][-1]["info"]["cut"] = o.msg[:200]
            continue
        # exit path: v == 0, result = u << min(utz, e) = G0 * 2^min(utz, e)
        utz = o.state.tags.get("utz")
        pre = o.state.tags.get("cut_pre")
        if utz is None or pre is None or not is_conc(utz):
            # a return that bypasses the loop (early exit): checked against the closed form of gcd(|c|, 10^e) =
            # 2^min(v2(c), e) * 5^min(v5(c), e), written as a finite disjunction over the exponent pair (linear: mod by constants)
            if o.kind != "return":
                res.d["inconclusive"].append("%s: loop cut not taken on the exit path" % name)
                continue
            g = T.I(o.value.t)
            n = z3.If(numer.t >= 0, numer.t, -numer.t)
            alts = []
            for a in range(e + 1):
                for b in range(e + 1):
                    alts.append(z3.And(g == (2 ** a) * (5 ** b), n % (2 ** a) == 0, n % (5 ** b) == 0,
                                       True if a == e else n % (2 ** (a + 1)) != 0, True if b == e else n % (5 ** (b + 1)) != 0))
            res.vc(ctx, name + "|closed-form", o.state.constraints(), z3.Or(*alts), {"c": numer.t}, info)
            continue
        inst = [gcd(pre["u"], z3.IntVal(0)) == pre["u"]]
        goal = T.I(o.value.t) == G0 * (1 << min(int(utz), e))
        res.vc(ctx, name, o.state.constraints() + inst, goal, {"c": numer.t}, info)
    # link between the loop's start state and the function's inputs: gcd(u0, v0) = gcd(odd part of |c|, 5^e) and utz = the number of
    # trailing zero bits of |c| -- without it the inductive argument says nothing about the arguments.  Ground instances of three gcd
    # facts for exactly these terms: symmetry, one Euclid step (gcd(N, V) = gcd(N mod V, V), the spec's own quotient/remainder pair),
    # gcd(x, x) = x; anything else the code does to set the loop up is not provable and ends as a counterexample candidate.
    N = 2 * modd + 1
    V = 5 ** e
    qq, rr = z3.Int("link_q"), z3.Int("link_r")
    facts = [gcd(N, z3.IntVal(V)) == gcd(z3.IntVal(V), N), N == qq * V + rr, rr >= 0, rr < V, qq >= 0,
             gcd(N, z3.IntVal(V)) == gcd(rr, z3.IntVal(V)), gcd(rr, z3.IntVal(V)) == gcd(z3.IntVal(V), rr)]
    if not links:
        res.d["inconclusive"].append("%s: the loop head of gcd_special was never reached (no base case)" % case["id"])
    for li, (u0, v0, cons, utz0) in enumerate(links):
        goal = z3.And(gcd(T.I(u0), T.I(v0)) == gcd(N, z3.IntVal(V)), T.I(utz0) == utz_class)
        name = "%s|utz=%d|link%d: gcd(u0, v0) = gcd(odd|c|, 5^e), utz = tz(|c|)" % (case["id"], utz_class, li)
        r = res.vc(ctx, name, cons + facts, goal, {"c": numer.t}, info)
        if r.status == "sat":
            # gcd is uninterpreted here, so the model's c need not be a real counterexample: ask for further models (different residues
            # of c) and keep them all as candidates; each is replayed against the native build and only reproducing ones are reported
            import random
            rng = random.Random(ctx.seed + e * 131 + utz_class)
            for _ in range(24):
                m_ = rng.choice([5, 25, 125])
                extra = [z3.If(numer.t >= 0, numer.t, -numer.t) / (1 << utz_class) % m_ == 0, z3.If(numer.t >= 0, numer.t, -numer.t) >= rng.randint(1, MAXC >> 3)]
                r2 = check_vc(cons + facts + extra, goal, 5000, name)
                if r2.status == "sat":
                    res.d["violations"].append({"vc": name + "|alt", "inputs": {"c": model_int(r2.model, numer.t)}, "info": info})
    if len(res.d["samples"]) < 2:
        res.sample({"vc": case["id"], "utz": utz_class, "paths": len(outs), "preservation_paths_closed": n_closed, "cut_log_tail": ex.cut_log[-3:]})
    if n_closed == 0 and utz_class == 0:
        res.d["inconclusive"].append("%s: no preservation path closed (loop body not reached?)" % case["id"])


def run_case(ctx, case):
    prog = ctx.program("dev")
    res = Res(case["id"])
    if case["kind"] == "gcd":
        return run_gcd(ctx, prog, res, case)
    if case["kind"] == "gcdpre":
        # callers must respect numer != 0 and denom_exp <= 38 (assert_ne / assert in gcd_special): checked on the callers below
        res.d["vcs"] += 1
        res.d["discharged"] += 1
        res.d["distinct"] += ["gcdpre-a", "gcdpre-b"]
        res.sample({"note": "preconditions of gcd_special are checked at its call sites in the 'ratio' cases (contract raises if not provable)"})
        return res.done()
    meth = case["meth"]
    for p in range(19):
        st = State()
        d = sym_decimal("c", st, p)
        c = d.fields[0].t
        Gs = {}

        def c_gcd(ex, st_, fr, callee, args, Gs=Gs):
            BI._use("CONTRACT gcd_special(c, e) = gcd(|c|, 10^e) > 0 dividing both (obligation: the gcd_special cases + trusted gcd facts)")
            n, e = args
            if not ex.proves(st_, z3.And(T.I(n.t) != 0, T.I(e.t) <= 38), 3000):
                raise Unsupported("precondition of gcd_special (numer != 0, denom_exp <= 38) not provable at the call site")
            ee = ex.conc(st_, e.t, "denom_exp")
            key = ("gcdc", T.term_id(n.t), ee)
            if key in st_.divcache:
                return IV(st_.divcache[key][0], "i128")
            G = T.fresh_int("G")
            k1 = T.fresh_int("k1")
            k2 = T.fresh_int("k2")
            st_.defs += [G >= 1, G <= 10 ** ee, T.I(n.t) == k1 * G, z3.IntVal(10 ** ee) == k2 * G, k2 >= 1, k1 != 0]
            st_.divcache[key] = (G, n.t)
            # exact divisions by G are known: register them so that `/` and `%` reuse these quotients (remainder 0)
            st_.divcache[("d", T.term_id(n.t), T.term_id(G))] = (k1, 0, n.t, G)
            st_.divcache[("d", ("c", 10 ** ee), T.term_id(G))] = (k2, 0, 10 ** ee, G)
            gs = dict(st_.tags.get("Gs", {}))
            gs[ee] = (G, k1, k2)
            st_.tags["Gs"] = gs
            return IV(G, "i128")
        hashed = []

        def c_hash(ex, st_, fr, callee, args):
            if "(i128, i128)" not in callee:
                return NotImplemented
            BI._use("observation point <(i128, i128) as Hash>::hash")
            st_.obs.append(("hash", ex.read_ref(st_, args[0]) if isinstance(args[0], RefV) else args[0]))
            return UNIT
        contracts = {"gcd_special": c_gcd}
        if meth == "hash":
            f = get_fn(prog, "hash", ["&Decimal", "&mut H"], "()")
            contracts["hash"] = c_hash
            args = [ref_to(d), Opaque("hasher")]
        elif meth == "as_integer_ratio":
            f = get_fn(prog, "as_integer_ratio", ["Decimal"], "(i128, i128)")
            args = [d]
        else:
            f = [x for x in prog.fn_by_sig(meth, ["Decimal"], "i128")][0]
            args = [d]
        ex = new_executor(ctx, prog, contracts=contracts)
        outs = ex.explore(start_state(f, args, {"H": "H"}, st))
        res.absorb(ex, outs)
        for i, o in enumerate(outs):
            name = "%s|p=%d|path%d:%s" % (case["id"], p, i, o.kind)
            if o.kind != "return":
                goal = False
            else:
                Gs = o.state.tags.get("Gs", {})
                if meth == "hash":
                    hs = [x for x in o.state.obs if x[0] == "hash"]
                    if len(hs) != 1:
                        res.vc(ctx, name, o.state.constraints(), False, {"c": c}, {"kind": "ratio", "meth": meth, "p": p})
                        continue
                    v = hs[0][1]
                    n_, d_ = T.I(v.fields[0].t), T.I(v.fields[1].t)
                if meth != "hash":
                    v = o.value
                    if meth == "as_integer_ratio":
                        n_, d_ = T.I(v.fields[0].t), T.I(v.fields[1].t)
                    elif meth == "numerator":
                        n_, d_ = T.I(v.t), None
                    else:
                        n_, d_ = None, T.I(v.t)
                # spec: n/d = c/10^p with d > 0, and d = 10^p / g, n = c / g for g = gcd(|c|, 10^p) (g is the contract's G, or 1 on the integer short-cut)
                if p in Gs and not (p == 0):
                    G, k1, k2 = Gs[p]
                    g_int = z3.Or(c == 0)      # short-cut taken iff c == 0 (p > 0)
                    conds = []
                    if n_ is not None:
                        conds.append(z3.If(c == 0, n_ == 0, n_ * G == c))
                    if d_ is not None:
                        conds.append(z3.If(c == 0, d_ == 1, z3.And(d_ * G == 10 ** p, d_ > 0)))
                    goal = z3.And(*conds)
                else:
                    conds = []
                    if n_ is not None:
                        conds.append(n_ == c if p == 0 else z3.And(c == 0, n_ == 0))
                    if d_ is not None:
                        conds.append(d_ == 1)
                    goal = z3.And(*conds) if p == 0 else z3.And(c == 0, *conds)
            res.vc(ctx, name, o.state.constraints(), goal, {"c": c}, {"kind": "ratio", "meth": meth, "p": p})
    return res.done()


def replay(ctx, native, v):
    import math
    info = v["info"]
    c = v["inputs"]["c"]
    nat = native["dev"]
    if info["kind"] == "gcd":
        e = info["e"]
        line = "5 ratio %s" % fmt_dec(c, e)
        obs = parse_native(nat.ask(line))
        g = math.gcd(abs(c), 10 ** e)
        exp = ("PAIR", c // g, 10 ** e // g)
        return {"reproduced": obs != exp, "line": line, "observed": obs, "expected": exp, "profile": "dev"}
    p = info["p"]
    g = math.gcd(abs(c), 10 ** p)
    n, d = c // g, 10 ** p // g
    meth = info["meth"]
    if meth == "hash":
        line = "5 hash %s" % fmt_dec(c, p)
        o = nat.ask(line).split()
        ok = len(o) == 3 and o[1] == o[2]
        return {"reproduced": not ok, "line": line, "observed": o, "expected": "hash(d) == hash(ratio)", "profile": "dev"}
    line = "5 %s %s" % ({"as_integer_ratio": "ratio", "numerator": "numer", "denominator": "denom"}[meth], fmt_dec(c, p))
    obs = parse_native(nat.ask(line))
    exp = {"as_integer_ratio": ("PAIR", n, d), "numerator": ("INT", n), "denominator": ("INT", d)}[meth]
    return {"reproduced": obs != exp, "line": line, "observed": obs, "expected": exp, "profile": "dev"}


def confirm_known(ctx, native, ent):
    return False


def cosim(ctx, native):
    import random, math
    rng = random.Random(ctx.seed + 909)
    prog = ctx.program("dev")
    f = get_fn(prog, "as_integer_ratio", ["Decimal"], "(i128, i128)")
    n = 0
    for _ in range(80):
        p = rng.randint(0, 18)
        c = rng.choice([0, 1, -1, 10 ** p, 2 ** 40, 5 ** 20, -(2 ** 30) * 5 ** 7, rng.randint(-MAXC, MAXC), rng.randint(-10 ** 6, 10 ** 6) * 10 ** rng.randint(0, 12)])
        if abs(c) > MAXC:
            c = 1250
        ex = new_executor(ctx, prog, unwind=400)
        outs = ex.explore(start_state(f, [decimal(IV(c, "i128"), IV(p, "u8"))]))
        assert len(outs) == 1, outs
        mine = ("PAIR", int(outs[0].value.fields[0].t), int(outs[0].value.fields[1].t))
        obs = parse_native(native["dev"].ask("5 ratio %s" % fmt_dec(c, p)))
        g = math.gcd(abs(c), 10 ** p)
        if obs != ("PAIR", c // g, 10 ** p // g):
            raise NativeViolation("5 ratio %s" % fmt_dec(c, p), obs, ("PAIR", c // g, 10 ** p // g))
        if obs != mine:
            raise RuntimeError("MIR interpreter %r vs native %r for %s" % (mine, obs, (c, p)))
        n += 1
    return n
