"""C10 -- remainder satisfies the truncated-division identity exactly."""
from .common import *
from . import divlib as DL

ID = "C10"
META = {
    "bounds": "all dividends / divisors |c| <= 2^127-1 (divisor symbolic incl. zero), all 19x19 scale pairs, all 9 integer types (i128: |i| <= 2^127-1), "
              "Rem / CheckedRem / RemAssign and reference forms; stepwise loop unrolled 19 with unwinding assertion",
    "outside_claim": ["opt-level / LLVM", "i128 operands equal to i128::MIN"],
    "assumptions": ["builtin models listed in coverage.builtin_models"],
}
FORMS = DL.FORMS


def configs(ctx):
    return [("dev", ["core", "main"])]


def cases(ctx):
    out = []
    thorough = ctx.tier == "thorough"
    pairs = [(p, q) for p in range(19) for q in range(19)]
    for meth in ("rem", "checked_rem"):
        for chunk in range(0, len(pairs), 19):
            out.append({"id": "%s|dec-dec|vv|pairs%d" % (meth, chunk), "meth": meth, "lty": "Decimal", "rty": "Decimal", "form": "vv",
                        "pairs": pairs[chunk:chunk + 19], "weight": 40})
        for form in ("rv", "vr", "rr") + (("as",) if meth == "rem" else ()):
            out.append({"id": "%s|dec-dec|%s" % (meth, form), "meth": meth, "lty": "Decimal", "rty": "Decimal", "form": form,
                        "pairs": [(0, 0), (2, 7), (18, 3), (5, 5), (0, 18), (18, 0)] if not thorough else pairs[::5], "weight": 20})
        for ty in INT9:
            for shape in ("di", "id"):
                lty, rty = ("Decimal", ty) if shape == "di" else (ty, "Decimal")
                forms = ["vv", "rv", "vr", "rr"] if (thorough or ty in ("u8", "i64", "i128")) else ["vv"]
                if shape == "di" and meth == "rem":
                    forms = forms + ["as"]
                for form in forms:
                    sc = list(range(19)) if form == "vv" else [0, 18]
                    out.append({"id": "%s|%s:%s|%s" % (meth, shape, ty, form), "meth": meth, "lty": lty, "rty": rty, "form": form,
                                "pairs": [(s, 0) if shape == "di" else (0, s) for s in sc], "weight": 10})
    return out


def run_case(ctx, case):
    prog = ctx.program("dev")
    res = Res(case["id"])
    meth, lty, rty, form = case["meth"], case["lty"], case["rty"], case["form"]
    checked = meth == "checked_rem"
    for (p, q) in [tuple(x) for x in case["pairs"]]:
        st = State()
        a, x, p_ = DL.operand(st, "x", lty, p, None)
        b, y, q_ = DL.operand(st, "y", rty, q, None)
        args = [a, b]
        subst = None
        if form == "as":
            f = get_fn(prog, "rem_assign", ["&mut Decimal", "T"], "()")
            subst = {"T": rty}
            st.heap[("cell", "lhs")] = a
            args = [RefV(box=("cell", "lhs")), b]
        else:
            f = DL.find_fn(prog, meth, lty, rty, form)
            if form[0] == "r":
                args[0] = ref_to(a)
            if form[1] == "r":
                args[1] = ref_to(b)
        ex = new_executor(ctx, prog, unwind=25)
        outs = ex.explore(start_state(f, args, subst, st))
        res.absorb(ex, outs)
        m = max(p_, q_)
        X = T.I(x) * 10 ** (m - p_)
        Y = T.I(y) * 10 ** (m - q_)
        info = {"p": p_, "q": q_, "meth": meth, "form": form, "lty": lty, "rty": rty}
        for i, o in enumerate(outs):
            name = "%s|p=%d,q=%d|path%d:%s" % (case["id"], p_, q_, i, o.kind if o.kind == "return" else panic_class(o))
            extra = []
            ovf = z3.And(T.B(p_ < q_), z3.Not(T.in_range(T.I(x) * 10 ** max(q_ - p_, 0), "i128")))
            v = None
            failed = False
            if o.kind == "return":
                v = o.value if form != "as" else o.state.heap[("cell", "lhs")]
                if checked:
                    v = v.fields[0] if v.variant == 1 else None
                    failed = v is None
                if failed:
                    goal = z3.Or(T.I(y) == 0, ovf)
            else:
                cls = panic_class(o)
                if checked or cls == "unwind":
                    goal = False
                elif cls == "DecimalError::DivisionByZero":
                    goal = (T.I(y) == 0)
                elif cls in ("DecimalError::InternalOverflow", "overflow"):
                    # "overflow signal (panic / None)": the operator may panic with the crate's InternalOverflow or with rustc's
                    # arithmetic-overflow check, but only where the up-scaled dividend really leaves the i128 range (that the
                    # unchecked build then agrees is C20's concern)
                    goal = ovf
                else:
                    goal = False
            if v is not None:
                c, sc = dec_fields(v)
                if not is_conc(sc):
                    raise Unsupported("symbolic scale")
                sc = int(sc)
                if sc > m:
                    goal = False
                else:
                    R = T.I(c) * 10 ** (m - sc)
                    # uniqueness-style spec with the spec's own fresh pair: (X - R) = qq*Y + rr, 0 <= rr < |Y|;
                    # R is the truncated remainder iff rr = 0, |R| < |Y| and R has the sign of X (or is 0)
                    # witness for the integer t of X = t*Y + R, assembled from the implementation's own quotient
                    # digits (Horner over the divisions it executed); any witness that makes the identity hold proves
                    # the existential, so a wrong guess can only make the VC fail, never pass wrongly
                    log = [e for e in o.state.divlog]
                    cands = [0, T.I(x)]
                    if log:
                        h = 0
                        for (_, _, qd, _) in log:
                            h = h * 10 + qd
                        steps = len(log) - 1
                        k = max(q_ - p_, 0)
                        cands.insert(0, h * 10 ** max(k - steps, 0))
                        cands.append(log[0][2])
                        cands.append(log[-1][2])
                    absY = z3.If(Y >= 0, Y, -Y)
                    ident = z3.Or(*[X == tc * Y + R for tc in cands])
                    goal = z3.And(Y != 0, ident, z3.If(X >= 0, R >= 0, R <= 0), R < absY, R > -absY)
            r = res.vc(ctx, name, o.state.pruned_constraints(goal, extra), goal, {"x": x, "y": y}, info)
            if i == 0 and (p + q) % 9 == 0:
                res.sample({"vc": name, "status": r.status, "time_s": round(r.time, 4)})
    return res.done()


def trem(a, b):
    q = abs(a) // abs(b)
    if (a < 0) != (b < 0):
        q = -q
    return a - q * b


def replay(ctx, native, v):
    info = v["info"]
    x, y = v["inputs"]["x"], v["inputs"]["y"]
    lty, rty, p, q = info["lty"], info["rty"], info["p"], info["q"]
    lhs = fmt_dec(x, p) if lty == "Decimal" else "%s:%d" % (lty, x)
    rhs = fmt_dec(y, q) if rty == "Decimal" else "%s:%d" % (rty, y)
    checked = info["meth"] == "checked_rem"
    line = "5 bin %s %s %s %s" % ("crem" if checked else "rem", info["form"], lhs, rhs)
    obs = parse_native(native["dev"].ask(line))
    m = max(p, q)
    fail = "NONE" if checked else "PANIC"
    if y == 0:
        ok = obs[0] == fail
    else:
        X, Y = x * 10 ** (m - p), y * 10 ** (m - q)
        R = trem(X, Y)
        if obs[0] == "OK":
            ok = obs[2] <= m and obs[1] * 10 ** (m - obs[2]) == R
        else:
            ok = obs[0] == fail and p < q and not (I128_MIN <= x * 10 ** (q - p) <= I128_MAX)
    return {"reproduced": not ok, "line": line, "observed": obs, "expected": "exact truncated remainder", "profile": "dev"}


def confirm_known(ctx, native, ent):
    w = ent.get("witness")
    return bool(w) and native["dev"].ask(w["line"]) == w["observed"]


def cosim(ctx, native):
    import random
    rng = random.Random(ctx.seed + 1010)
    prog = ctx.program("dev")
    n = 0
    bv = [0, 1, -1, 3, 7, 10, 10 ** 9, 10 ** 18, MAXC, -MAXC, MAXC // 3, MAXC // 5, 10 ** 19 + 7, -10 ** 20, 15, (1 << 64) + 1]
    for meth in ("rem", "checked_rem"):
        f = DL.find_fn(prog, meth, "Decimal", "Decimal", "vv")
        for _ in range(150):
            x = rng.choice(bv + [rng.randint(-MAXC, MAXC), rng.randint(-10 ** 24, 10 ** 24)])
            y = rng.choice(bv + [rng.randint(-MAXC, MAXC), rng.randint(-10 ** 24, 10 ** 24), rng.randint(-99, 99)])
            p, q = rng.randint(0, 18), rng.randint(0, 18)
            ex = new_executor(ctx, prog, unwind=25)
            outs = ex.explore(start_state(f, [decimal(IV(x, "i128"), IV(p, "u8")), decimal(IV(y, "i128"), IV(q, "u8"))]))
            assert len(outs) == 1, outs
            o = outs[0]
            if o.kind == "panic":
                mine = ("PANIC",)
            else:
                v = o.value
                if meth == "checked_rem":
                    v = v.fields[0] if v.variant == 1 else None
                mine = ("NONE",) if v is None else ("OK", int(v.fields[0].t), int(v.fields[1].t))
            line = "5 bin %s vv %s %s" % ("crem" if meth == "checked_rem" else "rem", fmt_dec(x, p), fmt_dec(y, q))
            obs = parse_native(native["dev"].ask(line))
            if obs[0] == "PANIC":
                obs = ("PANIC",)
            if obs != mine:
                raise RuntimeError("MIR interpreter %r vs native %r on %s" % (mine, obs, line))
            n += 1
    return n
