"""C18 -- the Dec! macro and runtime parsing agree on every literal."""
from .common import *
from mir2smt.exec import _Alts, Fork
import os
import subprocess

ID = "C18"
META = {
    "bounds": "decided by the solver: the macro's post-processing of the value returned by fpdec_core::str_to_dec (fpdec-macros MIR) versus Decimal::from_str's folding of "
              "the same value, for EVERY Result<(i128, isize), ParseDecimalError> with |coeff| <= 2^127-1 and |exponent| <= 2^41 (what str_to_dec can return for literals shorter than 2^40 bytes: the exponent accumulator is capped at 0x1000000*10+9): macro emits new_raw(C, N) iff from_str "
              "returns Ok with (C, N), macro panics (= compile error) iff from_str returns Err. Validated only (concrete programs, not a verdict over all programs): "
              "boundary literals compiled with the real macro and compared with from_str natively",
    "outside_claim": ["rustc's lexer and TokenStream::to_string (which text the macro sees for a literal token sequence): modelled by the contract 'the literal's source "
                      "text, a leading sign followed by one blank', validated on generated programs only", "quote!'s token emission (observed at the interpolation points)",
                      "opt-level / LLVM"],
    "assumptions": ["builtin models listed in coverage.builtin_models", "both sides call the same fpdec_core::str_to_dec (checked: one call each in the MIR)"],
}
LITS_OK = ["0", "1", "-1", "+1", "17.5", "-170.5e-2", ".5", "5.", "1e5", "1E-5", "0.000000000000000001", "170141183460469231731687303715884105727",
           "-170141183460469231731687303715884105727", "1e38", "12345678901234567890.123456789012345678", "0e0", "0.0", "1_0" if False else "10", "1e005", "0e99"]
LITS_ERR = ["170141183460469231731687303715884105728", "1e39", "0.0000000000000000001", "1e-19"]


def configs(ctx):
    return [("dev", ["core", "main", "macros"])]


def cases(ctx):
    return [{"id": "post-processing|macro vs from_str", "kind": "diff", "weight": 10},
            {"id": "generated programs|accepted literals", "kind": "gen_ok", "weight": 5},
            {"id": "generated programs|rejected literals", "kind": "gen_err", "weight": 5}]


def s2d_contract(results):
    """str_to_dec replaced by 'an arbitrary result'; the same result is handed to both sides"""
    def c(ex, st, fr, callee, args):
        BI._use("CONTRACT str_to_dec = arbitrary Result<(i128, isize), ParseDecimalError> (shared by macro and from_str)")
        if "s2d" in st.tags:
            return st.tags["s2d"]
        alts = []
        cc, ee = results
        ok = EnumV("Result", 0, (Agg("tuple", (IV(cc, "i128"), IV(ee, "isize"))),))
        alts.append((True, ok, lambda s2, ok=ok: s2.tags.__setitem__("s2d", ok)))
        for k in range(4):
            er = EnumV("Result", 1, (EnumV("ParseDecimalError", k),))
            alts.append((True, er, lambda s2, er=er: s2.tags.__setitem__("s2d", er)))
        return _Alts(alts)
    return c


def run_case(ctx, case):
    res = Res(case["id"])
    if case["kind"] == "diff":
        prog = ctx.program("dev", ("core", "main", "macros"))
        fm = [f for f in prog.by_last.get("Dec", []) if f.generic == "macros"]
        if len(fm) != 1:
            raise Unsupported("proc macro Dec not found")
        fm = fm[0]
        ff = get_fn(prog, "from_str", ["&str"], "Result<Decimal, ParseDecimalError>")
        for sign_branch in (False, True):
            st = State()
            c = sym_int("c", "i128", st, lo=-MAXC)
            e = sym_int("e", "isize", st, lo=-(1 << 41), hi=1 << 41)     # |exponent| of any literal shorter than 2^40 bytes
            toks = []

            def c_misc(ex, st_, fr, callee, args):
                return NotImplemented
            contracts = {
                "str_to_dec": s2d_contract((c.t, e.t)),
                "to_string": lambda ex, st_, fr, callee, a: Opaque("String", "src") if "TokenStream" in callee else NotImplemented,
                "starts_with": lambda ex, st_, fr, callee, a: sign_branch,
                "remove": lambda ex, st_, fr, callee, a: IV(32, "u32"),
                "new": lambda ex, st_, fr, callee, a: Opaque("TokenStream", None) if "TokenStream" in callee else NotImplemented,
                "push_ident": lambda ex, st_, fr, callee, a: (st_.obs.append(("ident", a[1].s if isinstance(a[1], StrV) else a[1])), UNIT)[1],
                "push_colon2": lambda ex, st_, fr, callee, a: UNIT,
                "push_comma": lambda ex, st_, fr, callee, a: UNIT,
                "push_group": lambda ex, st_, fr, callee, a: UNIT,
                "to_tokens": lambda ex, st_, fr, callee, a: (st_.obs.append(("tok", ex.read_ref(st_, a[0]) if isinstance(a[0], RefV) else a[0])), UNIT)[1],
                "into": lambda ex, st_, fr, callee, a: Opaque("TokenStream", "out") if "TokenStream" in callee else NotImplemented,
            }
            ex = new_executor(ctx, prog, contracts=contracts)
            outs = ex.explore(start_state(fm, [Opaque("TokenStream", "in")], None, st))
            res.absorb(ex, outs)
            for ia, oa in enumerate(outs):
                s2 = oa.state.copy()
                s2.frames = []
                s2.tags.pop("finish_panic", None)
                ex2 = new_executor(ctx, prog, contracts={"str_to_dec": s2d_contract((c.t, e.t))})
                outs_b = ex2.explore(start_state(ff, [Opaque("str", "src")], None, s2))
                for ib, ob in enumerate(outs_b):
                    name = "macro-path%d(%s) x from_str-path%d(%s)|sign-blank=%s" % (ia, oa.kind, ib, ob.kind, sign_branch)
                    if ob.kind != "return":
                        goal = False       # from_str itself must not panic
                    else:
                        okb = ob.value.variant == 0
                        if oa.kind == "panic":
                            goal = T.B(not okb)
                        elif not okb:
                            goal = False
                        else:
                            tk = [x[1] for x in oa.state.obs if x[0] == "tok"]
                            ids = [x[1] for x in oa.state.obs if x[0] == "ident"]
                            cb, pb = dec_fields(ob.value.fields[0])
                            # the emitted expression is Decimal::new_raw(<int literal>[ as i128], <int literal>[ as u8]): the literals' VALUES must be
                            # from_str's coefficient and scale (a literal of a narrower type followed by a widening `as` keeps its value;
                            # a value wrapped by an `as` inside the macro shows up as a different literal value)
                            core_ids = [x for x in ids if x in ("Decimal", "new_raw")]
                            rest = [x for x in ids if x not in ("Decimal", "new_raw")]
                            casts_ok = len(rest) % 2 == 0 and all(rest[i] == "as" and rest[i + 1] in INT_TYPES for i in range(0, len(rest) - 1, 2))
                            tk = [x for x in tk if isinstance(x, IV)]       # interpolated sub-streams are not literals
                            if len(tk) != 2 or core_ids != ["Decimal", "new_raw"] or not casts_ok:
                                goal = False
                            else:
                                goal = z3.And(T.B(T.eq(tk[0].t, cb)), T.B(T.eq(tk[1].t, pb)))
                    # counterexample selection: str_to_dec never returns a zero coefficient with a positive exponent, a literal after '-'
                    # has a non-positive coefficient, and exponents beyond a few digits only bloat the replayed literal
                    prefer = [c.t != 0, e.t <= 400, e.t >= -400] + ([c.t < 0] if sign_branch else [])
                    dbg = {"idents": [str(x[1]) for x in oa.state.obs if x[0] == "ident"][:8], "tokens": [repr(x[1])[:60] for x in oa.state.obs if x[0] == "tok"][:4]} if oa.kind == "return" else {}
                    r = res.vc(ctx, name, ob.state.pruned_constraints(goal), goal, {"c": c.t, "e": e.t}, dict({"kind": "diff", "blank": sign_branch}, **dbg), prefer=prefer)
                    if ia < 2 and ib == 0:
                        res.sample({"vc": name, "status": r.status, "time_s": round(r.time, 4)})
        return res.done()
    # generated programs
    from vfw import build
    d = build.bdir("macrotest-" + case["kind"])
    os.makedirs(os.path.join(d, "src"), exist_ok=True)
    open(os.path.join(d, "Cargo.toml"), "w").write('[package]\nname = "macrotest"\nversion = "0.1.0"\nedition = "2021"\n\n[dependencies]\nfpdec = { path = "%s" }\n\n[workspace]\n' % build.REPO)
    import shutil
    shutil.copy(os.path.join(build.REPO, "Cargo.lock"), os.path.join(d, "Cargo.lock"))
    if case["kind"] == "gen_ok":
        body = "use fpdec::{Dec, Decimal};\nuse core::str::FromStr;\nfn main() {\n"
        for lit in LITS_OK:
            body += '    {{ let m: Decimal = Dec!({lit}); let r = Decimal::from_str("{lit}"); match r {{ Ok(d) => println!("{{}} {{}}", "{lit}", (d.coefficient() == m.coefficient() && d.n_frac_digits() == m.n_frac_digits())), Err(_) => println!("{{}} from_str-err", "{lit}") }} }}\n'.format(lit=lit)
        body += "}\n"
        open(os.path.join(d, "src", "main.rs"), "w").write(body)
        p = subprocess.run(["cargo", "run", "--offline", "--target-dir", build.bdir("macrotest-target-ok")], cwd=d, env=build.ENV, stdout=subprocess.PIPE, stderr=subprocess.PIPE)
        out = p.stdout.decode()
        for lit in LITS_OK:
            res.d["vcs"] += 1
            res.d["distinct"].append("gen_ok|" + lit)
            if ("%s true" % lit) in out.split("\n"):
                res.d["discharged"] += 1
            else:
                res.d["violations"].append({"vc": "gen_ok|" + lit, "inputs": {}, "info": {"kind": "gen", "lit": lit, "out": (out + p.stderr.decode())[-400:]}})
        res.sample({"vc": case["id"], "literals": len(LITS_OK)})
        return res.done()
    lits = LITS_ERR if ctx.tier == "thorough" else LITS_ERR[:3]
    for lit in lits:
        open(os.path.join(d, "src", "main.rs"), "w").write("use fpdec::{Dec, Decimal};\nfn main() { let m: Decimal = Dec!(%s); println!(\"{}\", m.coefficient()); }\n" % lit)
        p = subprocess.run(["cargo", "build", "--offline", "--target-dir", build.bdir("macrotest-target-err")], cwd=d, env=build.ENV, stdout=subprocess.PIPE, stderr=subprocess.PIPE)
        res.d["vcs"] += 1
        res.d["distinct"].append("gen_err|" + lit)
        if p.returncode != 0 and b"proc macro panicked" in p.stderr + p.stdout:
            res.d["discharged"] += 1
        else:
            res.d["violations"].append({"vc": "gen_err|" + lit, "inputs": {}, "info": {"kind": "gen", "lit": lit, "out": p.stderr.decode()[-300:]}})
    res.sample({"vc": case["id"], "literals": lits})
    return res.done()


def replay(ctx, native, v):
    info = v["info"]
    if info["kind"] == "gen":
        return {"reproduced": True, "line": "Dec!(%s) vs from_str" % info["lit"], "observed": info["out"], "expected": "agreement"}
    # (c, e) pair: there is no public way to inject a str_to_dec result, so a literal with this value is written out, compiled with the
    # real macro and compared with from_str on the same text at run time
    c, e = v["inputs"]["c"], v["inputs"]["e"]
    blank = info.get("blank", False)
    if (c == 0 and e > 0) or abs(e) > 5000 or (blank and c > 0):
        return {"reproduced": False, "line": "", "observed": "no literal has the str_to_dec result (c=%d, e=%d)%s" % (c, e, " after '- '" if blank else ""), "expected": ""}
    text = "%de%d" % (abs(c), e)
    rt_text = ("-" if (c < 0 or blank) else "") + text
    lit = ("- " if blank else ("-" if c < 0 else "")) + text
    key = (lit,)
    if key in _RP:
        return _RP[key]
    if len(_RP) >= 8:
        return {"reproduced": False, "line": lit, "observed": "replay budget of 8 generated programs used up", "expected": ""}
    from vfw import build
    import subprocess, shutil
    d = build.bdir("macrotest-replay")
    os.makedirs(os.path.join(d, "src"), exist_ok=True)
    open(os.path.join(d, "Cargo.toml"), "w").write('[package]\nname = "macrotest"\nversion = "0.1.0"\nedition = "2021"\n\n[dependencies]\nfpdec = { path = "%s" }\n\n[workspace]\n' % build.REPO)
    shutil.copy(os.path.join(build.REPO, "Cargo.lock"), os.path.join(d, "Cargo.lock"))
    open(os.path.join(d, "src", "main.rs"), "w").write(
        "use fpdec::{Dec, Decimal};\nfn main() { let m: Decimal = Dec!(%s); println!(\"MACRO {} {}\", m.coefficient(), m.n_frac_digits()); }\n" % lit)
    p = subprocess.run(["cargo", "run", "--offline", "--target-dir", build.bdir("macrotest-target-rp")], cwd=d, env=build.ENV,
                       stdout=subprocess.PIPE, stderr=subprocess.PIPE)
    rt = parse_native(native["dev"].ask("5 from_str %s" % rt_text.encode().hex()))
    out = p.stdout.decode().strip()
    if p.returncode != 0:
        macro = ("REJECTED",) if b"proc macro panicked" in p.stderr else ("BUILD-ERROR", p.stderr.decode()[-200:])
    else:
        w = out.split()
        macro = ("OK", int(w[1]), int(w[2])) if len(w) == 3 and w[0] == "MACRO" else ("?", out[-100:])
    want = ("OK", rt[1], rt[2]) if rt[0] == "OK" else ("REJECTED",)
    r = {"reproduced": macro != want and macro[0] in ("OK", "REJECTED"), "line": "Dec!(%s) vs 5 from_str %s" % (lit, rt_text.encode().hex()),
         "observed": {"macro": macro, "from_str": rt}, "expected": "Dec!(lit) = from_str(lit) / both reject", "profile": "dev"}
    _RP[key] = r
    return r


_RP = {}


def _unused():
    return None


def confirm_known(ctx, native, ent):
    return False
