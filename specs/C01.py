"""C01 -- addition and subtraction are exact or signal overflow."""
from .common import *

ID = "C01"
META = {
    "bounds": "all coefficient pairs |c| <= 2^127-1, all 19x19 scale pairs, all 9 integer types over their whole range "
              "(incl. i128::MIN), operators and checked forms, by-value / by-reference / compound-assignment forms; loop-free code, no unwinding bound",
    "outside_claim": ["opt-level / LLVM code generation (MIR is upstream of it)", "Decimal operands with coefficient i128::MIN (outside Decimal::MIN..=MAX)"],
    "assumptions": ["builtin models of core functions listed under coverage.builtin_models",
                    "nightly MIR (dev profile: overflow-checks=on, debug-assertions=on) represents the code"],
}


def configs(ctx):
    return [("dev", ["core", "main"])]


OPS = {"add": ("add", "add_assign", +1, "checked_add", "cadd"),
       "sub": ("sub", "sub_assign", -1, "checked_sub", "csub")}
FORMS = {"vv": ("{}", "{}"), "rv": ("&{}", "{}"), "vr": ("{}", "&{}"), "rr": ("&{}", "&{}")}


def cases(ctx):
    out = []
    for op in ("add", "sub"):
        for checked in (False, True):
            for form in ("vv", "rv", "vr", "rr"):
                out.append({"id": "%s|%s|dec-dec|%s" % (op, "checked" if checked else "op", form),
                            "op": op, "checked": checked, "shape": "dd", "form": form, "weight": 30 if form == "vv" else 10})
                tys = INT9 if (ctx.tier == "thorough" or form == "vv") else ["u8", "i64", "i128"]
                for ty in tys:
                    for shape in ("di", "id"):
                        out.append({"id": "%s|%s|%s:%s|%s" % (op, "checked" if checked else "op", shape, ty, form),
                                    "op": op, "checked": checked, "shape": shape, "ty": ty, "form": form, "weight": 2})
            if not checked:
                out.append({"id": "%s|assign|dec-dec" % op, "op": op, "checked": False, "shape": "dd", "form": "as", "weight": 20})
                for ty in INT9:
                    out.append({"id": "%s|assign|di:%s" % (op, ty), "op": op, "checked": False, "shape": "di", "ty": ty, "form": "as", "weight": 2})
    return out


def _scales(ctx, case):
    if case["shape"] == "dd":
        if case["form"] in ("vv", "as") or ctx.tier == "thorough":
            return [(p, q) for p in range(19) for q in range(19)]
        return scale_pairs(ctx, 30)
    return [(p, 0) for p in range(19)]


def run_case(ctx, case):
    prog = ctx.program("dev")
    res = Res(case["id"])
    op, checked, shape, form = case["op"], case["checked"], case["shape"], case["form"]
    meth = OPS[op][3] if checked else OPS[op][0]
    sign = OPS[op][2]
    lty = "Decimal" if shape in ("dd", "di") else case["ty"]
    rty = "Decimal" if shape in ("dd", "id") else case["ty"]
    ret = "Option<Decimal>" if checked else "Decimal"
    subst = None
    if form == "as":
        f = get_fn(prog, OPS[op][1], ["&mut Decimal", "T"], "()")
        subst = {"T": rty}
    else:
        fl, frm = FORMS[form]
        f = get_fn(prog, meth, [fl.format(lty), frm.format(rty)], ret)
    for (p, q) in _scales(ctx, case):
        st = State()
        if shape == "dd":
            a = sym_decimal("x", st, p)
            b = sym_decimal("y", st, q)
            xt, yt = a.fields[0].t, b.fields[0].t
        elif shape == "di":
            a = sym_decimal("x", st, p)
            b = int_arg("y", case["ty"], st)
            xt, yt = a.fields[0].t, b.t
        else:
            a = int_arg("x", case["ty"], st)
            b = sym_decimal("y", st, p)
            xt, yt = a.t, b.fields[0].t
            p, q = 0, p
        args = [a, b]
        ex = new_executor(ctx, prog)
        if form == "as":
            st.heap[("cell", "lhs")] = a
            args = [RefV(box=("cell", "lhs")), b]
        else:
            if form[0] == "r":
                args[0] = ref_to(a)
            if form[1] == "r":
                args[1] = ref_to(b)
        st = start_state(f, args, subst, st)
        outs = ex.explore(st)
        res.absorb(ex, outs)
        s = max(p, q)
        X = xt * 10 ** (s - p)
        Y = yt * 10 ** (s - q)
        R = X + sign * Y
        fits = z3.And(T.in_range(X, "i128"), T.in_range(Y, "i128"), T.in_range(R, "i128"))
        info = {"p": p, "q": q}
        for i, o in enumerate(outs):
            name = "%s|p=%d,q=%d|path%d:%s" % (case["id"], p, q, i, o.kind if o.kind == "return" else panic_class(o))
            if o.kind == "return":
                v = o.value
                if form == "as":
                    v = o.state.heap[("cell", "lhs")]
                if checked:
                    if v.variant == 0:
                        goal = z3.Not(fits)
                    else:
                        c, sc = dec_fields(v.fields[0])
                        goal = z3.And(fits, c == R, T.B(T.eq(sc, s)))
                else:
                    c, sc = dec_fields(v)
                    goal = z3.And(fits, c == R, T.B(T.eq(sc, s)))
            else:
                if checked or not is_overflow_panic(o):
                    goal = False
                else:
                    goal = z3.Not(fits)
            r = res.vc(ctx, name, o.state.constraints(), goal, {"x": xt, "y": yt}, info)
            if i == 0 and (p, q) in ((0, 0), (3, 18)):
                res.sample({"vc": name, "status": r.status, "time_s": round(r.time, 4)})
    return res.done()


def _operands(case, inputs, info):
    shape = case_shape(case)
    p, q = info["p"], info["q"]
    x, y = inputs["x"], inputs["y"]
    if shape[0] == "dd":
        return fmt_dec(x, p), fmt_dec(y, q)
    if shape[0] == "di":
        return fmt_dec(x, p), "%s:%d" % (shape[1], y)
    return "%s:%d" % (shape[1], x), fmt_dec(y, q)


def case_shape(case_id):
    parts = case_id.split("|")
    sh = parts[2]
    if sh == "dec-dec":
        return ("dd", None)
    k, ty = sh.split(":")
    return (k, ty)


def expected(case_id, inputs, info):
    parts = case_id.split("|")
    op = parts[0]
    checked = parts[1] == "checked"
    p, q = info["p"], info["q"]
    s = max(p, q)
    X = inputs["x"] * 10 ** (s - p)
    Y = inputs["y"] * 10 ** (s - q)
    R = X + (Y if op == "add" else -Y)
    fits = all(I128_MIN <= v <= I128_MAX for v in (X, Y, R))
    if fits:
        return ("OK", R, s)
    return ("NONE",) if checked else ("PANIC",)


def replay(ctx, native, v):
    cid = v["case"]
    parts = cid.split("|")
    op = parts[0]
    checked = parts[1] == "checked"
    form = parts[3] if len(parts) > 3 else "as"
    if parts[1] == "assign":
        form = "as"
    lhs, rhs = _operands(cid, v["inputs"], v["info"])
    nop = OPS[op][4] if checked else op
    line = "5 bin %s %s %s %s" % (nop, form, lhs, rhs)
    obs = parse_native(native["dev"].ask(line))
    exp = expected(cid, v["inputs"], v["info"])
    ok = (obs[0] == exp[0]) and (exp[0] != "OK" or obs == exp)
    return {"reproduced": not ok, "line": line, "observed": obs, "expected": exp, "profile": "dev"}


def confirm_known(ctx, native, ent):
    return False


def cosim(ctx, native):
    """push boundary + random vectors through the MIR interpreter (concrete mode) and the native build"""
    import random
    rng = random.Random(ctx.seed + 101)
    prog = ctx.program("dev")
    n = 0
    bvals = [0, 1, -1, 10, I128_MAX, -I128_MAX, I128_MAX // 10, I128_MAX // 10 + 1, -(I128_MAX // 10) - 1, 10 ** 18, 10 ** 37, (1 << 64) + 1]
    vecs = []
    for _ in range(60):
        x = rng.choice(bvals + [rng.randint(-I128_MAX, I128_MAX), rng.randint(-10 ** 20, 10 ** 20)])
        y = rng.choice(bvals + [rng.randint(-I128_MAX, I128_MAX), rng.randint(-10 ** 20, 10 ** 20)])
        vecs.append((x, rng.randint(0, 18), y, rng.randint(0, 18)))
    for op in ("add", "sub"):
        for checked in (False, True):
            f = get_fn(prog, OPS[op][3] if checked else op, ["Decimal", "Decimal"], "Option<Decimal>" if checked else "Decimal")
            for (x, p, y, q) in vecs:
                ex = new_executor(ctx, prog)
                st = start_state(f, [decimal(IV(x, "i128"), IV(p, "u8")), decimal(IV(y, "i128"), IV(q, "u8"))])
                outs = ex.explore(st)
                if len(outs) != 1:
                    raise RuntimeError("concrete run gave %d outcomes" % len(outs))
                o = outs[0]
                if o.kind == "panic":
                    mine = ("PANIC",)
                elif checked:
                    mine = ("NONE",) if o.value.variant == 0 else ("OK",) + tuple(int(t) for t in dec_fields(o.value.fields[0]))
                else:
                    mine = ("OK",) + tuple(int(t) for t in dec_fields(o.value))
                obs = parse_native(native["dev"].ask("5 bin %s vv %s %s" % (OPS[op][4] if checked else op, fmt_dec(x, p), fmt_dec(y, q))))
                if obs[0] != mine[0] or (mine[0] == "OK" and obs != mine):
                    raise RuntimeError("MIR interpreter %r vs native %r on %s %s" % (mine, obs, op, (x, p, y, q)))
                n += 1
    return n
