"""C12 -- Decimal to f64 / f32 conversion is correctly rounded (nearest, ties to even)."""
from .common import *
from fractions import Fraction

ID = "C12"
META = {
    "bounds": "f64 and f32; every scale 1..=18 x every leading-zero class 1..=127 of |c| (thorough: all, quick: all scales x boundary + seeded classes) x sign; "
              "all coefficients in each class; the p = 0 / c = 0 branch: taken exactly then and applied to the coefficient",
    "outside_claim": ["the primitive `as` cast i128 -> f64/f32 used when the value is an integer or zero (Rust language semantics: round to nearest even)",
                      "opt-level / LLVM"],
    "assumptions": ["builtin models listed in coverage.builtin_models", "f64/f32::from_bits is the identity on the bit pattern",
                    "language constants MANTISSA_DIGITS / MAX_EXP of f64 and f32"],
}
FT = {"f64": (52, 1023, 64), "f32": (23, 127, 32)}


def configs(ctx):
    return [("dev", ["core", "main"])]


def lz_classes(ctx, p, fty):
    if ctx.tier == "thorough":
        return list(range(1, 128))
    rng = __import__("random").Random(ctx.seed * 31 + p + (7 if fty == "f32" else 0))
    must = {1, 2, 63, 64, 65, 126, 127}
    # classes around |c| ~ 10^p (value ~ 1) are where den_lz ~ num_lz
    den_lz = 128 - (10 ** p).bit_length()
    must |= {max(1, min(127, den_lz + d)) for d in (-1, 0, 1)}
    must |= {rng.randint(1, 127) for _ in range(8)}
    return sorted(must)


def cases(ctx):
    out = []
    for fty in ("f64", "f32"):
        out.append({"id": "%s|integral-or-zero branch" % fty, "fty": fty, "kind": "int", "weight": 5})
        for p in range(1, 19):
            out.append({"id": "%s|p=%d" % (fty, p), "fty": fty, "kind": "frac", "p": p, "weight": 30})
    return out


def nearest_goal(bits, A, p, fty, neg):
    """bits (term) is the correctly rounded (nearest-even) float for A / 10^p, A > 0 (term)"""
    fb, bias, width = FT[fty]
    D = 10 ** p
    q63, low = None, None
    sign_bit = 1 << (width - 1)
    mag = bits - (sign_bit if neg else 0)
    # candidate biased exponents: value in [2^-60, 2^128)
    goals = []
    lo_e = bias - 62
    hi_e = bias + 128
    E = T.fresh_int("E")
    F = T.fresh_int("F")
    decode = [mag == E * (1 << fb) + F, F >= 0, F < (1 << fb), E >= 0, E < (1 << (width - 1 - fb))]
    return decode, E, F


def ulp_conditions(A, p, fty, Ec, F):
    """for a concrete biased exponent Ec: |value| = (2^fb + F) * 2^(Ec - bias - fb); nearest-even conditions over integers"""
    fb, bias, width = FT[fty]
    D = 10 ** p
    S = (1 << fb) + F
    e = Ec - bias - fb
    # compare A/D with (2S +- 1) * 2^(e-1); scale both sides by 2^k to clear negative exponents
    k = max(0, 2 - e)
    lhs = A * (1 << k)                      # (A / D) * 2^k * D
    up = (2 * S + 1) * (1 << (e - 1 + k)) * D
    lo = (2 * S - 1) * (1 << (e - 1 + k)) * D
    lo_pow2 = (4 * S - 1) * (1 << (e - 2 + k)) * D      # lower boundary when F == 0 (previous binade has half the spacing)
    even = (F % 2 == 0)
    upper_ok = z3.Or(lhs < up, z3.And(lhs == up, even))
    lower_ok = z3.If(F == 0, lhs >= lo_pow2, z3.Or(lhs > lo, z3.And(lhs == lo, even)))
    return z3.And(upper_ok, lower_ok)


def run_case(ctx, case):
    prog = ctx.program("dev")
    res = Res(case["id"])
    fty = case["fty"]
    fb, bias, width = FT[fty]
    f = get_fn(prog, "from", ["Decimal"], fty)
    if case["kind"] == "int":
        for p in range(19):
            st = State()
            d = sym_decimal("c", st, p)
            c = d.fields[0].t
            if p > 0:
                st.assume_def(c == 0)
            ex = new_executor(ctx, prog)
            outs = ex.explore(start_state(f, [d], {"Self": fty}, st))
            res.absorb(ex, outs)
            for i, o in enumerate(outs):
                v = o.value if o.kind == "return" else None
                ok = v is not None and isinstance(v, FV) and v.src is not None and v.src[0] == "int_to_float"
                goal = (T.I(v.src[1]) == c) if ok else False
                res.vc(ctx, "%s|p=%d|path%d" % (case["id"], p, i), o.state.constraints(), goal, {"c": c}, {"fty": fty, "p": p})
        return res.done()
    p = case["p"]
    for lz in lz_classes(ctx, p, fty):
        for neg in (False, True):
            st = State()
            d = sym_decimal("c", st, p)
            c = d.fields[0].t
            A = -c if neg else c
            st.assume_sign(c, not neg)
            lo, hi = 1 << (127 - lz), min((1 << (128 - lz)) - 1, MAXC)
            st.defs.append(z3.And(A >= lo, A <= hi))
            st.tags["lz_hints"] = (lz,)
            ex = new_executor(ctx, prog)
            outs = ex.explore(start_state(f, [d], {"Self": fty}, st))
            res.absorb(ex, outs)
            for i, o in enumerate(outs):
                name = "%s|lz=%d,neg=%s|path%d:%s" % (case["id"], lz, neg, i, o.kind if o.kind == "return" else panic_class(o))
                extra = []
                if o.kind != "return" or not isinstance(o.value, FV) or o.value.bits is None:
                    goal = False
                else:
                    bits = T.I(o.value.bits)
                    decode, E, F = nearest_goal(bits, A, p, fty, neg)
                    extra = decode
                    # exponent candidates from the class bounds
                    lo_v = Fraction(lo, 10 ** p)
                    hi_v = Fraction(hi + 1, 10 ** p)
                    import math
                    k_lo = math.floor(math.log2(lo_v)) - 1
                    k_hi = math.floor(math.log2(hi_v)) + 2
                    alts = []
                    for kk in range(k_lo, k_hi + 1):
                        Ec = kk + bias
                        if Ec <= 0 or Ec >= (1 << (width - 1 - fb)) - 1:
                            continue
                        alts.append(z3.And(E == Ec, ulp_conditions(A, p, fty, Ec, F)))
                    goal = z3.And(bits >= 0, bits < (1 << width), z3.Or(*alts)) if alts else False
                r = res.vc(ctx, name, o.state.pruned_constraints(goal, extra), goal, {"c": c}, {"fty": fty, "p": p})
                if i == 0 and lz in (1, 64) and not neg:
                    res.sample({"vc": name, "status": r.status, "time_s": round(r.time, 4)})
    return res.done()


def float_bits_nearest(c, p, fty):
    """reference: correctly rounded bits via exact rational arithmetic"""
    import struct
    fb, bias, width = FT[fty]
    if c == 0:
        return 0
    v = Fraction(abs(c), 10 ** p)
    import math
    e = math.floor(math.log2(v))
    while Fraction(2) ** e > v:
        e -= 1
    while Fraction(2) ** (e + 1) <= v:
        e += 1
    scaled = v / Fraction(2) ** (e - fb)        # in [2^fb, 2^(fb+1))
    n = scaled.numerator // scaled.denominator
    rem = scaled - n
    if rem > Fraction(1, 2) or (rem == Fraction(1, 2) and n % 2 == 1):
        n += 1
    if n == 1 << (fb + 1):
        n >>= 1
        e += 1
    bits = ((e + bias) << fb) | (n - (1 << fb))
    if c < 0:
        bits |= 1 << (width - 1)
    return bits


def replay(ctx, native, v):
    c, p, fty = v["inputs"]["c"], v["info"]["p"], v["info"]["fty"]
    line = "5 to_%s %s" % (fty, fmt_dec(c, p))
    obs = parse_native(native["dev"].ask(line))
    exp = ("BITS", float_bits_nearest(c, p, fty))
    return {"reproduced": obs != exp, "line": line, "observed": obs, "expected": exp, "profile": "dev"}


def confirm_known(ctx, native, ent):
    return False


def cosim(ctx, native):
    import random
    rng = random.Random(ctx.seed + 1212)
    prog = ctx.program("dev")
    n = 0
    for fty in ("f64", "f32"):
        f = get_fn(prog, "from", ["Decimal"], fty)
        for _ in range(150):
            p = rng.randint(1, 18)
            c = rng.choice([1, -1, 9007199254740993, 90071992547409905000000000001, 10101010101010101, rng.randint(-MAXC, MAXC), rng.randint(-10 ** 20, 10 ** 20), 5 * 10 ** p + 1,
                            rng.randint(-(1 << 24), 1 << 24), rng.randint(-(1 << 53), 1 << 53), rng.randint(1, 99999), (1 << rng.randint(60, 126)) + (1 << 64) * rng.randint(0, 9)])
            if c == 0:
                c = 3
            ex = new_executor(ctx, prog)
            outs = ex.explore(start_state(f, [decimal(IV(c, "i128"), IV(p, "u8"))], {"Self": fty}))
            assert len(outs) == 1, outs
            mine = ("BITS", int(outs[0].value.bits))
            obs = parse_native(native["dev"].ask("5 to_%s %s" % (fty, fmt_dec(c, p))))
            ref = ("BITS", float_bits_nearest(c, p, fty))
            if obs != mine:
                raise RuntimeError("MIR interpreter %r vs native %r for %s %s" % (mine, obs, fty, (c, p)))
            if obs != ref:
                raise NativeViolation("5 to_%s %s" % (fty, fmt_dec(c, p)), obs, ref)
            n += 1
    return n
