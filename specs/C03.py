"""C03 -- division yields the quotient correctly rounded to 18 fractional digits, normalised."""
from .common import *
from . import divlib as DL

ID = "C03"
META = {
    "bounds": "all dividends/divisors |c| <= 2^127-1 (sign-split), divisor symbolic incl. zero; scale pairs of the Decimal/Decimal operator: thorough all 361 under all 8 modes; quick all 361 under two modes (one of "
              "Floor/Ceiling and one other, by seed) and the boundary + seeded subset under the other six; 3 modes per integer shape in the quick tier; integer operands over their whole type (i128: |i| <= 2^127-1); "
              "normalize loop unrolled 19 with unwinding assertion",
    "outside_claim": ["opt-level / LLVM", "a rounded quotient equal to i128::MIN may be returned or signalled (outside Decimal::MIN..=MAX)",
                      "i128 integer operands equal to i128::MIN"],
    "assumptions": ["builtin models listed in coverage.builtin_models", "kernel contracts (obligations in C16); checked_div_rounded contract: obligations for n = 18 discharged here (cdr cases) on top of the rounding-kernel contracts (C05 kernel cases, C16/K4)", "RoundingMode::default() = thread's mode (C19)"],
}


def configs(ctx):
    return [("dev", ["core", "main"])]


def quick_pairs(ctx, k):
    must = [(0, 0), (18, 18), (0, 18), (18, 0), (9, 9), (3, 5), (17, 1)]
    rng = __import__("random").Random(ctx.seed + 33)
    rest = [(p, q) for p in range(19) for q in range(19) if (p, q) not in must]
    rng.shuffle(rest)
    return must + rest[:k]


def cases(ctx):
    out = []
    thorough = ctx.tier == "thorough"
    pairs = [(p, q) for p in range(19) for q in range(19)]
    out.append({"id": "normalize|contract obligation", "meth": "normalize", "weight": 20})
    # obligations of the checked_div_rounded contract for the classes `/` can reach (n = 18): same code as the C04 'cdr' cases
    cls = [(p, q, 18) for (p, q) in (pairs if thorough else quick_pairs(ctx, 28))]
    for mode in range(8):
        for chunk in range(0, len(cls), 9):
            out.append({"id": "cdr|n=18|mode=%d|classes%d" % (mode, chunk), "meth": "cdr", "kind": "cdr", "mode": mode, "classes": cls[chunk:chunk + 9], "weight": 40})
    for meth in ("div", "checked_div"):
        # quick: all 361 scale pairs under two modes (one direction-dependent: Ceiling or Floor; one of the other six, by seed) and the
        # boundary + seeded subset of pairs under the remaining six, so that every mode meets the operator's own code in every run
        full = list(range(8)) if thorough else [(1, 3)[ctx.seed % 2], (0, 2, 4, 5, 6, 7)[ctx.seed % 6]]
        for mode in range(8):
            pp = pairs if mode in full else quick_pairs(ctx, 28)
            for chunk in range(0, len(pp), 19):
                out.append({"id": "%s|dec-dec|vv|mode=%d|pairs%d" % (meth, mode, chunk), "meth": meth, "lty": "Decimal", "rty": "Decimal", "form": "vv",
                            "modes": [mode], "pairs": pp[chunk:chunk + 19], "weight": 50})
        for form in ("rv", "vr", "rr") + (("as",) if meth == "div" else ()):
            out.append({"id": "%s|dec-dec|%s" % (meth, form), "meth": meth, "lty": "Decimal", "rty": "Decimal", "form": form,
                        "modes": [3, 5], "pairs": [(2, 7), (18, 3), (5, 5)] if not thorough else pairs[::7], "weight": 30})
        tys = INT9 if thorough else ["u8", "i64", "i128"]
        for ty in INT9:
            for shape in ("di", "id"):
                lty, rty = ("Decimal", ty) if shape == "di" else (ty, "Decimal")
                scales = list(range(19)) if thorough else [0, 1, 9, 18]
                modes = list(range(8)) if thorough else [(INT9.index(ty) + k) % 8 for k in (0, 3, 5)]
                forms = ["vv", "rv", "vr", "rr"] if (thorough or ty in tys) else ["vv"]
                if shape == "di" and meth == "div":
                    forms = forms + ["as"]
                for form in forms:
                    sc = scales if form == "vv" else scales[:2]
                    out.append({"id": "%s|%s:%s|%s" % (meth, shape, ty, form), "meth": meth, "lty": lty, "rty": rty, "form": form,
                                "modes": modes if form == "vv" else modes[:1],
                                "pairs": [(s, 0) if shape == "di" else (0, s) for s in sc], "weight": 20 if form == "vv" else 5})
    out += rounding_kernel_obligations(ctx)
    return out


def run_case(ctx, case):
    if case.get("delegate"):
        return run_delegated(ctx, case)
    prog = ctx.program("dev")
    res = Res(case["id"])
    if case["meth"] == "normalize":
        return normalize_obligation(ctx, prog, res)
    if case["meth"] == "cdr":
        from . import C04
        return C04.run_case(ctx, case)
    form = case["form"]
    DL.run_div_case(ctx, prog, res, case["meth"], case["lty"], case["rty"], "vv" if form == "as" else form,
                    [tuple(x) for x in case["pairs"]], case["modes"], [18], [None], assign=(form == "as"))
    return res.done()


def normalize_obligation(ctx, prog, res):
    """normalize(&mut c, &mut n) from its MIR, for every entry scale: justifies kernels.c_normalize"""
    f = get_fn(prog, "normalize", ["&mut i128", "&mut u8"], "()")
    for n0 in range(19):
        st = State()
        c = sym_int("c", "i128", st)
        st.heap[("cell", "c")] = c
        st.heap[("cell", "n")] = IV(n0, "u8")
        ex = new_executor(ctx, prog, unwind=25)
        outs = ex.explore(start_state(f, [RefV(box=("cell", "c")), RefV(box=("cell", "n"))], st=st))
        res.absorb(ex, outs)
        for i, o in enumerate(outs):
            name = "normalize|n0=%d|path%d:%s" % (n0, i, o.kind)
            if o.kind != "return":
                goal = False
            else:
                c2 = o.state.heap[("cell", "c")].t
                n2 = o.state.heap[("cell", "n")].t
                if not is_conc(n2):
                    raise Unsupported("symbolic scale after normalize")
                j = n0 - int(n2)
                q10, r10 = ex.tdivmod(o.state, c2, 10, "i128")
                goal = z3.If(c.t == 0, z3.And(T.I(c2) == 0, T.B(int(n2) == 0)),
                             z3.And(T.B(0 <= j <= n0), c.t == T.I(c2) * 10 ** j, z3.Or(T.B(int(n2) == 0), T.I(r10) != 0)))
            res.vc(ctx, name, o.state.constraints(), goal, {"c": c.t}, {"meth": "normalize", "n0": n0})
    return res.done()


def replay(ctx, native, v):
    if v.get("info", {}).get("delegate"):
        return replay_delegated(ctx, native, v)
    if v["info"].get("kind") == "cdr":
        from . import C04
        return C04.replay(ctx, native, v)
    if v["info"].get("meth") == "normalize":
        return {"reproduced": False, "line": "", "observed": "private helper", "expected": ""}
    return DL.replay_div(ctx, native, v)


def confirm_known(ctx, native, ent):
    w = ent.get("witness")
    return bool(w) and native["dev"].ask(w["line"]) == w["observed"]


def cosim(ctx, native):
    return DL.cosim_div(ctx, native, ("div", "checked_div"))
