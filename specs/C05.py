"""C05 -- round / checked_round implement all eight rounding modes exactly."""
from .common import *

ID = "C05"
META = {
    "bounds": "all coefficients |c| <= 2^127-1, scales 0..=18, n over the whole i8 range, all 8 modes; rounding kernel "
              "i128_div_rounded for all N, D with |N|,|D| <= 2^127-1, D != 0; loop-free",
    "outside_claim": ["opt-level / LLVM", "kernel inputs equal to i128::MIN (callers pass Decimal coefficients)"],
    "assumptions": ["builtin models listed in coverage.builtin_models",
                    "RoundingMode::default() returns the thread's current mode (checked by C19)"],
}


def configs(ctx):
    return [("dev", ["core", "main"])]


def cases(ctx):
    out = []
    for m in range(8):
        out.append({"id": "kernel|mode=%d|explicit" % m, "kind": "kernel", "mode": m, "explicit": True, "weight": 5})
        out.append({"id": "kernel|mode=%d|default" % m, "kind": "kernel", "mode": m, "explicit": False, "weight": 5})
        for meth in ("round", "checked_round"):
            for p in range(19):
                out.append({"id": "%s|mode=%d|p=%d" % (meth, m, p), "kind": meth, "mode": m, "p": p, "weight": 20})
    return out


def n_values(ctx, p):
    if ctx.tier == "thorough":
        return list(range(-128, 128))
    must = {-128, -127, -39, -38, -37, -21, -20, -19, -1, 0, 1, p - 40, p - 39, p - 38, p - 37, p - 1, p, p + 1, 17, 18, 19, 127}
    rng = __import__("random").Random(ctx.seed * 1000 + p)
    must |= {rng.randint(-128, 127) for _ in range(6)}
    return sorted(x for x in must if -128 <= x <= 127)


def round_expected_conc(mode, c, p, n):
    if n >= p:
        return (c, p)
    r = rnd_conc(mode, c, 10 ** (p - n))
    if n >= 0:
        return (r, n)
    return (r * 10 ** (-n), 0)


def run_case(ctx, case):
    prog = ctx.program("dev")
    res = Res(case["id"])
    mode = case["mode"]
    if case["kind"] == "kernel":
        f = get_fn(prog, "i128_div_rounded", ["i128", "i128", "Option<RoundingMode>"], "i128")
        st = State()
        N = sym_int("N", "i128", st, lo=-MAXC)
        D = sym_int("D", "i128", st, lo=-MAXC)
        st.defs.append(D.t != 0)
        marg = EnumV("Option", 1, (EnumV("RoundingMode", mode),)) if case["explicit"] else EnumV("Option", 0)
        ex = new_executor(ctx, prog, mode=None if case["explicit"] else mode)
        outs = ex.explore(start_state(f, [N, D, marg], st=st))
        res.absorb(ex, outs)
        Nn = z3.If(D.t < 0, -N.t, N.t)
        Dn = z3.If(D.t < 0, -D.t, D.t)
        for i, o in enumerate(outs):
            name = "%s|path%d:%s" % (case["id"], i, o.kind if o.kind == "return" else panic_class(o))
            goal = rnd_rel(mode, Nn, Dn, o.value.t) if o.kind == "return" else False
            r = res.vc(ctx, name, o.state.constraints(), goal, {"N": N.t, "D": D.t}, {"mode": mode})
            if i < 2:
                res.sample({"vc": name, "status": r.status, "time_s": round(r.time, 4)})
        return res.done()
    meth = case["kind"]
    p = case["p"]
    checked = meth == "checked_round"
    f = get_fn(prog, meth, ["Decimal", "i8"], "Option<Decimal>" if checked else "Decimal")
    for n in n_values(ctx, p):
        st = State()
        d = sym_decimal("c", st, p)
        c = d.fields[0].t
        ex = new_executor(ctx, prog, mode=mode)
        outs = ex.explore(start_state(f, [d, IV(n, "i8")], st=st))
        res.absorb(ex, outs)
        region = False
        if "round-far-below" in ctx.active_regions:
            region = n < p - 38
        if region:
            continue
        for i, o in enumerate(outs):
            name = "%s|n=%d|path%d:%s" % (case["id"], n, i, o.kind if o.kind == "return" else panic_class(o))
            extra = []
            if n >= p:
                fits = True
            else:
                # rr := the (unique, always existing) rounded quotient; used only on the failure outcomes
                rr = T.fresh_int("rr")
                extra = [rnd_rel(mode, c, 10 ** (p - n), rr)]
                fits = T.in_range(rr if n >= 0 else rr * 10 ** (-n), "i128")
            v = None
            if o.kind == "return":
                v = o.value
                if checked:
                    v = v.fields[0] if v.variant == 1 else None
                    if v is None:
                        goal = T.bnot(fits)
            elif checked or panic_class(o) == "unwind":
                goal = False
            else:
                goal = T.bnot(fits)
            if v is not None:
                extra = []
                rc, rs = dec_fields(v)
                if n >= p:
                    goal = z3.And(rc == c, T.B(T.eq(rs, p)))
                elif n >= 0:
                    goal = z3.And(rnd_rel(mode, c, 10 ** (p - n), rc), T.B(T.eq(rs, n)))
                else:
                    # rc must be k * 10^-n with k the rounded quotient; witness k = rc div 10^-n
                    q2, r2 = ex.tdivmod(o.state, rc, 10 ** (-n), "i128")
                    goal = z3.And(T.B(T.eq(r2, 0)), rnd_rel(mode, c, 10 ** (p - n), q2), T.B(T.eq(rs, 0)))
            cons = o.state.constraints()
            r = res.vc(ctx, name, cons + extra, goal, {"c": c}, {"p": p, "n": n, "mode": mode})
            if n in (0, -1) and i == 0:
                res.sample({"vc": name, "status": r.status, "time_s": round(r.time, 4)})
    return res.done()


def replay(ctx, native, v):
    cid = v["case"]
    kind = cid.split("|")[0]
    info = v["info"]
    mode = info["mode"]
    if kind == "kernel":
        N, D = v["inputs"]["N"], v["inputs"]["D"]
        line = "%d k_div_rounded %d %d" % (mode, N, D)
        obs = parse_native(native["dev"].ask(line))
        if D < 0:
            N, D = -N, -D
        exp = ("INT", rnd_conc(mode, N, D))
        return {"reproduced": obs != exp, "line": line, "observed": obs, "expected": exp, "profile": "dev"}
    c, p, n = v["inputs"]["c"], info["p"], info["n"]
    line = "%d %s %s %d" % (mode, "cround" if kind == "checked_round" else "round", fmt_dec(c, p), n)
    obs = parse_native(native["dev"].ask(line))
    ec, es = round_expected_conc(mode, c, p, n)
    if I128_MIN <= ec <= I128_MAX:
        exp = ("OK", ec, es)
    else:
        exp = ("NONE",) if kind == "checked_round" else ("PANIC",)
    ok = obs[0] == exp[0] and (exp[0] != "OK" or obs == exp)
    return {"reproduced": not ok, "line": line, "observed": obs, "expected": exp, "profile": "dev"}


def confirm_known(ctx, native, ent):
    w = ent.get("witness")
    if not w:
        return False
    obs = native["dev"].ask(w["line"])
    return obs == w["observed"]


def cosim(ctx, native):
    import random
    rng = random.Random(ctx.seed + 505)
    prog = ctx.program("dev")
    f = get_fn(prog, "i128_div_rounded", ["i128", "i128", "Option<RoundingMode>"], "i128")
    n = 0
    for _ in range(200):
        mode = rng.randint(0, 7)
        D = rng.choice([1, 2, 3, 5, 10, 7, 10 ** rng.randint(0, 37), rng.randint(1, MAXC)]) * rng.choice([1, -1])
        N = rng.choice([rng.randint(-MAXC, MAXC), (abs(D) // 2) * rng.randint(-9, 9), D * rng.randint(-5, 5), abs(D) * rng.randint(-99, 99) // 2])
        if abs(N) > MAXC:
            continue
        ex = new_executor(ctx, prog, mode=mode)
        outs = ex.explore(start_state(f, [IV(N, "i128"), IV(D, "i128"), EnumV("Option", 0)]))
        assert len(outs) == 1
        mine = ("INT", int(outs[0].value.t)) if outs[0].kind == "return" else ("PANIC",)
        obs = parse_native(native["dev"].ask("%d k_div_rounded %d %d" % (mode, N, D)))
        if obs[:1] != mine[:1] or (mine[0] == "INT" and obs != mine):
            raise RuntimeError("MIR interpreter %r vs native %r for %d/%d mode %d" % (mine, obs, N, D, mode))
        n += 1
    return n
