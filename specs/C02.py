"""C02 -- multiplication is exact up to 18 digits, else correctly rounded."""
from .common import *
from . import kernels as K

ID = "C02"
META = {
    "bounds": "all coefficient pairs |c| <= 2^127-1 (split by sign), all 19x19 scale pairs (quick: boundary + seeded subset for the rounded region), "
              "all 8 modes, 9 integer types over their whole range, Mul / CheckedMul / MulAssign and by-reference forms; loop-free",
    "outside_claim": ["opt-level / LLVM", "a rounded result equal to i128::MIN may be returned or signalled as overflow (outside Decimal::MIN..=MAX)"],
    "assumptions": ["builtin models listed in coverage.builtin_models", "kernel contracts u128_mul_u128 / u256_idiv_u128 (obligations discharged by C16)",
                    "RoundingMode::default() = thread's mode (C19)"],
}
SIGNS2 = ("++", "+-", "-+", "--")
FORMS = {"vv": ("{}", "{}"), "rv": ("&{}", "{}"), "vr": ("{}", "&{}"), "rr": ("&{}", "&{}")}


def configs(ctx):
    return [("dev", ["core", "main"])]


def pairs_for(ctx, rounded):
    allp = [(p, q) for p in range(19) for q in range(19) if (p + q > 18) == rounded]
    if ctx.tier == "thorough":
        return allp
    if not rounded:
        return allp
    must = {(18, 18), (1, 18), (18, 1), (10, 9), (9, 10), (17, 18), (18, 17), (12, 12)}
    rng = __import__("random").Random(ctx.seed + 2)
    rest = [x for x in allp if x not in must]
    rng.shuffle(rest)
    return sorted(must | set(rest[:22]))


def cases(ctx):
    out = []
    for sg in SIGNS2:
        # exact region: mode must not matter (default() is not modelled there)
        out.append({"id": "mul|dec-dec|exact|signs=%s" % sg, "kind": "dd", "meth": "mul", "rounded": False, "signs": sg, "mode": None, "form": "vv", "weight": 30})
        out.append({"id": "checked_mul|dec-dec|all|signs=%s" % sg, "kind": "dd", "meth": "checked_mul", "rounded": None, "signs": sg, "mode": None, "form": "vv", "weight": 40})
        for mode in range(8):
            out.append({"id": "mul|dec-dec|rounded|mode=%d|signs=%s" % (mode, sg), "kind": "dd", "meth": "mul", "rounded": True, "signs": sg,
                        "mode": mode, "form": "vv", "weight": 60})
    for form in ("rv", "vr", "rr", "as"):
        for meth in ("mul", "checked_mul"):
            if form == "as" and meth != "mul":
                continue
            out.append({"id": "%s|dec-dec|form=%s" % (meth, form), "kind": "ddform", "meth": meth, "form": form, "weight": 30})
    tys = INT9
    for ty in tys:
        for meth in ("mul", "checked_mul"):
            for shape in ("di", "id"):
                forms = ["vv", "rv", "vr", "rr"] + (["as"] if (shape == "di" and meth == "mul") else [])
                if ctx.tier != "thorough" and ty not in ("u8", "i64", "i128"):
                    forms = ["vv"] + (["as"] if "as" in forms else [])
                for form in forms:
                    out.append({"id": "%s|%s:%s|form=%s" % (meth, shape, ty, form), "kind": shape, "meth": meth, "ty": ty, "form": form, "weight": 3})
    return out


def pos(t):
    return t


def spec_dd(meth, mode, x, p, y, q, o, res, ex):
    """returns (goal, extra_assumptions) for outcome o of Decimal*Decimal"""
    P = x * y
    s = p + q
    one_x = (x == 10 ** p)
    one_y = (y == 10 ** q)
    zero = z3.Or(x == 0, y == 0)
    checked = meth == "checked_mul"
    extra = []
    if s <= 18:
        req_c, req_s = P, s
    else:
        rr = T.fresh_int("rr")
        extra = [rnd_rel(mode if mode is not None else 5, P, 10 ** (s - 18), rr)] if not checked else []
        req_c, req_s = rr, 18
    v = None
    if o.kind == "return":
        v = o.value
        if checked:
            v = v.fields[0] if v.variant == 1 else None
    elif checked or panic_class(o) == "unwind":
        return False, []
    if v is not None:
        c, sc = dec_fields(v)
        sc_is = lambda k: T.B(T.eq(sc, k))
        if checked:
            gen = z3.And(T.B(s <= 18), c == P, sc_is(s), T.in_range(P, "i128"))
        elif s <= 18:
            gen = z3.And(c == P, sc_is(s))
        else:
            gen = z3.And(rnd_rel(mode, P, 10 ** (s - 18), c), sc_is(18))
            extra = []
        goal = z3.If(zero, z3.And(c == 0, sc_is(0)),
                     z3.If(one_y, z3.And(c == x, sc_is(p)),
                           z3.If(one_x, z3.And(c == y, sc_is(q)), gen)))
        return goal, extra
    # failure (panic / None): allowed iff no short-cut applies and the required coefficient does not fit
    if checked:
        fail_ok = z3.And(z3.Not(zero), z3.Not(one_x), z3.Not(one_y),
                         z3.Or(T.B(s > 18), z3.Not(T.in_range(P, "i128"))))
    else:
        fail_ok = z3.And(z3.Not(zero), z3.Not(one_x), z3.Not(one_y), z3.Or(req_c > I128_MAX, req_c <= I128_MIN))
    return fail_ok, extra


def expected_dd(meth, mode, x, p, y, q):
    """concrete oracle: set of acceptable native outcomes"""
    P = x * y
    s = p + q
    checked = meth == "checked_mul"
    if x == 0 or y == 0:
        return [("OK", 0, 0)]
    if y == 10 ** q:
        return [("OK", x, p)]
    if x == 10 ** p:
        return [("OK", y, q)]
    fail = ("NONE",) if checked else ("PANIC",)
    if checked:
        if s <= 18 and I128_MIN <= P <= I128_MAX:
            return [("OK", P, s)]
        return [fail]
    if s <= 18:
        c, sc = P, s
    else:
        c, sc = rnd_conc(mode, P, 10 ** (s - 18)), 18
    if I128_MIN < c <= I128_MAX:
        return [("OK", c, sc)]
    if c == I128_MIN:
        return [("OK", c, sc), fail]
    return [fail]


def run_case(ctx, case):
    prog = ctx.program("dev")
    res = Res(case["id"])
    kind = case["kind"]
    meth = case["meth"]
    checked = meth == "checked_mul"
    ret = "Option<Decimal>" if checked else "Decimal"
    if kind in ("dd", "ddform"):
        form = case["form"]
        subst = None
        if form == "as":
            f = get_fn(prog, "mul_assign", ["&mut Decimal", "T"], "()")
            subst = {"T": "Decimal"}
        else:
            f = get_fn(prog, meth, [FORMS[form][0].format("Decimal"), FORMS[form][1].format("Decimal")], ret)
        if kind == "dd":
            if case["rounded"] is None:
                plist = [(p, q) for p in range(19) for q in range(19)] if ctx.tier == "thorough" else \
                    sorted(set(pairs_for(ctx, False)[::3]) | set(pairs_for(ctx, True)[::2]) | {(9, 9), (9, 10), (0, 0), (18, 0), (0, 18), (18, 18)})
            else:
                plist = pairs_for(ctx, case["rounded"])
            runs = [(p, q, case["signs"], case["mode"]) for (p, q) in plist]
        else:
            rng = __import__("random").Random(ctx.seed + 7)
            plist = [(0, 0), (9, 9), (10, 9), (18, 18), (3, 18), (18, 2)] + [(rng.randint(0, 18), rng.randint(0, 18)) for _ in range(6 if ctx.tier == "quick" else 40)]
            runs = [(p, q, sg, (p * 7 + q) % 8) for (p, q) in plist for sg in SIGNS2]
        for (p, q, sg, mode) in runs:
            st = State()
            a = sym_decimal("x", st, p)
            b = sym_decimal("y", st, q)
            x, y = a.fields[0].t, b.fields[0].t
            st.assume_sign(x, sg[0] == "+")
            st.assume_sign(y, sg[1] == "+")
            args = [a, b]
            if form == "as":
                st.heap[("cell", "lhs")] = a
                args = [RefV(box=("cell", "lhs")), b]
            else:
                if form[0] == "r":
                    args[0] = ref_to(a)
                if form[1] == "r":
                    args[1] = ref_to(b)
            ex = new_executor(ctx, prog, mode=mode, contracts=K.WIDE_CONTRACTS)
            outs = ex.explore(start_state(f, args, subst, st))
            res.absorb(ex, outs)
            for i, o in enumerate(outs):
                name = "%s|p=%d,q=%d,signs=%s,mode=%s|path%d:%s" % (case["id"], p, q, sg, mode, i, o.kind if o.kind == "return" else panic_class(o))
                if form == "as" and o.kind == "return":
                    o = Outcome("return", o.state.heap[("cell", "lhs")], o.state)
                goal, extra = spec_dd(meth, mode, x, p, y, q, o, res, ex)
                r = res.vc(ctx, name, o.state.pruned_constraints(goal, extra), goal, {"x": x, "y": y},
                           {"p": p, "q": q, "mode": mode if mode is not None else 5, "meth": meth, "form": form, "shape": "dd"})
                if i == 0 and (p + q) % 9 == 0:
                    res.sample({"vc": name, "status": r.status, "time_s": round(r.time, 4)})
        return res.done()
    # Decimal * int / int * Decimal
    ty = case["ty"]
    form = case["form"]
    subst = None
    if form == "as":
        f = get_fn(prog, "mul_assign", ["&mut Decimal", "T"], "()")
        subst = {"T": ty}
    else:
        l, r_ = ("Decimal", ty) if kind == "di" else (ty, "Decimal")
        f = get_fn(prog, meth, [FORMS[form][0].format(l), FORMS[form][1].format(r_)], ret)
    for p in range(19):
        st = State()
        d = sym_decimal("x", st, p)
        i_ = int_arg("y", ty, st)
        x, y = d.fields[0].t, i_.t
        args = [d, i_] if kind == "di" else [i_, d]
        if form == "as":
            st.heap[("cell", "lhs")] = d
            args = [RefV(box=("cell", "lhs")), i_]
        else:
            if form[0] == "r":
                args[0] = ref_to(args[0])
            if form[1] == "r":
                args[1] = ref_to(args[1])
        ex = new_executor(ctx, prog)
        outs = ex.explore(start_state(f, args, subst, st))
        res.absorb(ex, outs)
        P = x * y
        fits = T.in_range(P, "i128")
        for k, o in enumerate(outs):
            name = "%s|p=%d|path%d:%s" % (case["id"], p, k, o.kind if o.kind == "return" else panic_class(o))
            if o.kind == "return":
                v = o.value if form != "as" else o.state.heap[("cell", "lhs")]
                if checked:
                    v = v.fields[0] if v.variant == 1 else None
                if v is None:
                    goal = z3.Not(fits)
                else:
                    c, sc = dec_fields(v)
                    goal = z3.And(fits, c == P, T.B(T.eq(sc, p)))
            else:
                goal = False if (checked or not is_overflow_panic(o)) else z3.Not(fits)
            res.vc(ctx, name, o.state.constraints(), goal, {"x": x, "y": y}, {"p": p, "meth": meth, "form": form, "shape": kind, "ty": ty, "mode": 5})
    return res.done()


def replay(ctx, native, v):
    info = v["info"]
    x, y = v["inputs"]["x"], v["inputs"]["y"]
    meth, form, shape = info["meth"], info["form"], info["shape"]
    op = "cmul" if meth == "checked_mul" else "mul"
    if shape == "dd":
        lhs, rhs = fmt_dec(x, info["p"]), fmt_dec(y, info["q"])
        exp = expected_dd(meth, info["mode"], x, info["p"], y, info["q"])
    else:
        P = x * y
        ok = I128_MIN <= P <= I128_MAX
        exp = [("OK", P, info["p"])] if ok else [("NONE",) if meth == "checked_mul" else ("PANIC",)]
        lhs, rhs = (fmt_dec(x, info["p"]), "%s:%d" % (info["ty"], y)) if shape == "di" else ("%s:%d" % (info["ty"], y), fmt_dec(x, info["p"]))
    line = "%d bin %s %s %s %s" % (info["mode"], op, form, lhs, rhs)
    obs = parse_native(native["dev"].ask(line))
    if obs[0] == "PANIC":
        obs = ("PANIC",)
    return {"reproduced": obs not in exp, "line": line, "observed": obs, "expected": exp, "profile": "dev"}


def confirm_known(ctx, native, ent):
    w = ent.get("witness")
    return bool(w) and native["dev"].ask(w["line"]) == w["observed"]


def cosim(ctx, native):
    import random
    rng = random.Random(ctx.seed + 202)
    prog = ctx.program("dev")
    n = 0
    bv = [0, 1, -1, 10, 10 ** 9, 10 ** 18, MAXC, -MAXC, 10 ** 19 + 7, -10 ** 20, 3, 5, 15, 25, (1 << 64) - 1, (1 << 64) + 1]
    for meth in ("mul", "checked_mul"):
        f = get_fn(prog, meth, ["Decimal", "Decimal"], "Option<Decimal>" if meth == "checked_mul" else "Decimal")
        for _ in range(150):
            x = rng.choice(bv + [rng.randint(-MAXC, MAXC), rng.randint(-10 ** 24, 10 ** 24)])
            y = rng.choice(bv + [rng.randint(-MAXC, MAXC), rng.randint(-10 ** 24, 10 ** 24)])
            p, q = rng.randint(0, 18), rng.randint(0, 18)
            mode = rng.randint(0, 7)
            ex = new_executor(ctx, prog, mode=mode)
            outs = ex.explore(start_state(f, [decimal(IV(x, "i128"), IV(p, "u8")), decimal(IV(y, "i128"), IV(q, "u8"))]))
            assert len(outs) == 1
            o = outs[0]
            if o.kind == "panic":
                mine = ("PANIC",)
            else:
                v = o.value
                if meth == "checked_mul":
                    v = v.fields[0] if v.variant == 1 else None
                mine = ("NONE",) if v is None else ("OK", int(v.fields[0].t), int(v.fields[1].t))
            obs = parse_native(native["dev"].ask("%d bin %s vv %s %s" % (mode, "cmul" if meth == "checked_mul" else "mul", fmt_dec(x, p), fmt_dec(y, q))))
            if obs[0] == "PANIC":
                obs = ("PANIC",)
            if obs != mine:
                raise RuntimeError("MIR interpreter %r vs native %r on %s %r" % (mine, obs, meth, (x, p, y, q, mode)))
            n += 1
    return n
