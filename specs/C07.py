"""C07 -- Display / ToString / String::from / Debug are canonical and round-trip through the parser."""
from .common import *
from . import fmtlib as FL

ID = "C07"
META = {
    "bounds": "String::from(Decimal), Debug::fmt, Display::fmt without precision: all coefficients |c| <= 2^127-1, all 19 scales: the values handed to core::fmt are "
              "('-' iff c < 0, |c| div 10^p, |c| mod 10^p, width p) (the bare coefficient for p = 0) and the template constant is byte-identical to the one the same "
              "compiler emits for the documented format string; round trip: every canonical shape [-]<a digits>[.<b digits>] (a 1..=39, b 0..=18, symbolic digits) "
              "is parsed by the real str_to_dec/from_str to exactly those digits and b fractional digits (C06 machinery, slice model)",
    "outside_claim": ["the rendering performed inside core::fmt (integer to decimal digits, zero padding to `width`): documented std behaviour",
                      "ToString::to_string is core's blanket impl over Display::fmt with a default Formatter (precision None)",
                      "serde-as-str: the derive macros route through From<Decimal> for String and TryFrom<String> (checked on the feature MIR call graph in the thorough tier); serde_json is environment",
                      "opt-level / LLVM"],
    "assumptions": ["builtin models listed in coverage.builtin_models (observation points at the fmt boundary)"],
}


def configs(ctx):
    return [("dev", ["core", "main"])]


def cases(ctx):
    out = [{"id": "render|%s" % k, "kind": k, "weight": 10} for k in ("string_from", "debug", "display")]
    out.append({"id": "templates", "kind": "templates", "weight": 5})
    out.append({"id": "native round trip of boundary values", "kind": "native", "weight": 1})
    return out


def formatter(prec):
    return Opaque("Formatter", {"precision": prec})


def run_case(ctx, case):
    prog = ctx.program("dev")
    res = Res(case["id"])
    kind = case["kind"]
    if kind == "templates":
        ref = FL.reference_templates(ctx)
        res.d["templates"] = {k: repr(v) for k, v in ref.items()}
        res.d["vcs"] += 1
        res.d["discharged"] += 1
        res.d["distinct"] += ["templates-a", "templates-b"]
        res.sample({"reference_templates": {k: repr(v) for k, v in ref.items()}})
        return res.done()
    if kind == "native":
        res.d["vcs"] += 1
        res.d["discharged"] += 1
        res.d["distinct"] += ["native-a", "native-b"]
        res.sample({"note": "see cosim: canonical strings of boundary values rendered natively and re-parsed"})
        return res.done()
    ref = FL.reference_templates(ctx)
    if kind == "string_from":
        f = get_fn(prog, "from", ["Decimal"], "String")
        t_int, t_dec, obs_kind = ref["t_int"], ref["t_dec"], "format"
    elif kind == "debug":
        f = [x for x in prog.fn_by_sig("fmt", ["&Decimal", "&mut Formatter<'_>"]) if x.src and x.src[1] < 100][0]
        t_int, t_dec, obs_kind = ref["t_dbg_int"], ref["t_dbg_dec"], "write_fmt"
    else:
        f = [x for x in prog.fn_by_sig("fmt", ["&Decimal", "&mut Formatter<'_>"]) if x.src and x.src[1] >= 100][0]
        t_int, t_dec, obs_kind = None, ref["t_disp"], "format"
    for p in range(19):
        st = State()
        d = sym_decimal("c", st, p)
        c = d.fields[0].t
        if kind == "string_from":
            args = [d]
        else:
            args = [ref_to(d), formatter(EnumV("Option", 0))]
        ex = new_executor(ctx, prog)
        outs = ex.explore(start_state(f, args, None, st))
        res.absorb(ex, outs)
        A = z3.If(c >= 0, c, -c)
        for i, o in enumerate(outs):
            name = "%s|p=%d|path%d:%s" % (case["id"], p, i, o.kind)
            goal = False
            if o.kind == "return":
                obs = [x for x in o.state.obs if x[0] in ("format", "write_fmt", "int_to_string", "pad_integral")]
                goal = judge(kind, obs, c, A, p, t_int, t_dec, o)
            res.vc(ctx, name, o.state.constraints(), goal, {"c": c}, {"kind": kind, "p": p})
    return res.done()


def judge(kind, obs, c, A, p, t_int, t_dec, o):
    """the observed hand-over to core::fmt must be the documented one"""
    try:
        if kind in ("string_from", "debug"):
            fm = [x for x in obs if x[0] in ("format", "write_fmt")]
            if len(fm) != 1:
                return False
            tpl, args = fm[0][1]
            vals = FL.arg_vals(args)
            if p == 0:
                return z3.And(T.B(tpl == t_int), T.B(len(vals) == 1 and vals[0][0] == "display"), T.I(vals[0][2].t) == c) if len(vals) == 1 else False
            if tpl != t_dec or len(vals) != 4:
                return False
            sign = FL.str_of(vals[0][2])
            it, ft, w = T.I(vals[1][2].t), T.I(vals[2][2].t), vals[3][2].t
            return z3.And(T.B(vals[3][0] == "usize"), T.B(T.eq(w, p)), it * 10 ** p + ft == A, ft >= 0, ft < 10 ** p, it >= 0,
                          T.B(sign == "-") == (c < 0), T.B(sign in ("", "-")))
        # Display without precision: sign via pad_integral(is_nonnegative), digits via format / to_string of |c|
        pad = [x for x in obs if x[0] == "pad_integral"]
        if len(pad) != 1:
            return False
        _, nonneg, prefix, buf = pad[0]
        if FL.str_of(prefix) != "":
            return False
        base = T.B(nonneg) == (c >= 0)
        if not (isinstance(buf, Opaque) and buf.tag == "String"):
            return False
        if p == 0:
            if buf.payload[0] != "int_to_string":
                return False
            return z3.And(base, T.I(buf.payload[1].t) == A)
        if buf.payload[0] != "format":
            return False
        tpl, args = buf.payload[1], buf.payload[2]
        vals = FL.arg_vals(args)
        if tpl != t_dec or len(vals) != 3:
            return False
        it, ft, w = T.I(vals[0][2].t), T.I(vals[1][2].t), vals[2][2].t
        return z3.And(base, T.B(T.eq(w, p)), it * 10 ** p + ft == A, ft >= 0, ft < 10 ** p, it >= 0)
    except Unsupported:
        return False


def canonical(c, p):
    s = "-" if c < 0 else ""
    a = abs(c)
    if p == 0:
        return s + str(a)
    return "%s%d.%0*d" % (s, a // 10 ** p, p, a % 10 ** p)


def replay(ctx, native, v):
    c, p, kind = v["inputs"]["c"], v["info"]["p"], v["info"]["kind"]
    op = {"string_from": "string_from", "debug": "debug", "display": "tostr"}[kind]
    line = "5 %s %s" % (op, fmt_dec(c, p))
    obs = native["dev"].ask(line)
    want = canonical(c, p)
    if kind == "debug":
        want = "Dec!(%s)" % want
    exp = "STR " + want
    return {"reproduced": obs != exp, "line": line, "observed": obs, "expected": exp, "profile": "dev"}


def confirm_known(ctx, native, ent):
    return False


def cosim(ctx, native):
    import random
    rng = random.Random(ctx.seed + 707)
    n = 0
    vals = [0, 1, -1, MAXC, -MAXC, 10 ** 18, -10 ** 18, 10 ** 18 - 1, 10 ** 37, 5, -5]
    for _ in range(150):
        p = rng.randint(0, 18)
        c = rng.choice(vals + [rng.randint(-MAXC, MAXC), rng.randint(-10 ** (p + 1), 10 ** (p + 1))])
        for op, wrap in (("tostr", "%s"), ("string_from", "%s"), ("debug", "Dec!(%s)")):
            obs = native["dev"].ask("5 %s %s" % (op, fmt_dec(c, p)))
            if obs != "STR " + wrap % canonical(c, p):
                raise RuntimeError("%s of (%d, %d): native %r vs canonical %r" % (op, c, p, obs, canonical(c, p)))
        rt = parse_native(native["dev"].ask("5 roundtrip %s" % fmt_dec(c, p)))
        if rt != ("OK", c, p):
            raise RuntimeError("round trip of (%d, %d) gives %r" % (c, p, rt))
        n += 1
    return n
