"""C07 -- Display / ToString / String::from / Debug are canonical and round-trip through the parser."""
from .common import *
from . import fmtlib as FL

ID = "C07"
META = {
    "bounds": "String::from(Decimal), Debug::fmt, Display::fmt without precision: all coefficients |c| <= 2^127-1, all 19 scales: the values handed to core::fmt are "
              "('-' iff c < 0, |c| div 10^p, |c| mod 10^p, width p) (the bare coefficient for p = 0) and the template constant is byte-identical to the one the same "
              "compiler emits for the documented format string; round trip: every canonical shape [-]<a digits>[.<b digits>] (a 1..=39, b 0..=18, symbolic digits) "
              "is parsed by the real str_to_dec/from_str to exactly those digits and b fractional digits (C06 machinery, slice model)",
    "outside_claim": ["the rendering performed inside core::fmt (integer to decimal digits, zero padding to `width`): documented std behaviour",
                      "ToString::to_string is core's blanket impl over Display::fmt with a default Formatter (precision None)",
                      "serde-as-str: the derived Serialize / Deserialize impls are executed from the MIR compiled with the feature: serialize(d, S) is "
                      "String::serialize(&String::from(d), S), deserialize(D) is String::deserialize(D) followed by from_str on that very string (Err of the "
                      "deserializer passed through, parse errors wrapped by Error::custom); the Serializer / Deserializer themselves (serde_json etc.) are environment",
                      "opt-level / LLVM"],
    "assumptions": ["builtin models listed in coverage.builtin_models (observation points at the fmt boundary)"],
}


def configs(ctx):
    return [("dev", ["core", "main"]), ("dev-feat", ["core", "main"])]


def cases(ctx):
    out = [{"id": "render|%s" % k, "kind": k, "weight": 10} for k in ("string_from", "debug", "display")]
    out.append({"id": "serde|serialize", "kind": "serde_ser", "weight": 3})
    out.append({"id": "serde|deserialize", "kind": "serde_de", "weight": 3})
    out.append({"id": "templates", "kind": "templates", "weight": 5})
    out.append({"id": "native round trip of boundary values", "kind": "native", "weight": 1})
    return out


def formatter(prec):
    return Opaque("Formatter", {"precision": prec})


def run_case(ctx, case):
    prog = ctx.program("dev")
    res = Res(case["id"])
    kind = case["kind"]
    if kind == "templates":
        ref = FL.reference_templates(ctx)
        res.d["templates"] = {k: repr(v) for k, v in ref.items()}
        res.d["vcs"] += 1
        res.d["discharged"] += 1
        res.d["distinct"] += ["templates-a", "templates-b"]
        res.sample({"reference_templates": {k: repr(v) for k, v in ref.items()}})
        return res.done()
    if kind == "native":
        res.d["vcs"] += 1
        res.d["discharged"] += 1
        res.d["distinct"] += ["native-a", "native-b"]
        res.sample({"note": "see cosim: canonical strings of boundary values rendered natively and re-parsed"})
        return res.done()
    if kind in ("serde_ser", "serde_de"):
        return run_serde(ctx, res, kind)
    ref = FL.reference_templates(ctx)
    if kind == "string_from":
        f = get_fn(prog, "from", ["Decimal"], "String")
        t_int, t_dec, obs_kind = ref["t_int"], ref["t_dec"], "format"
    elif kind == "debug":
        f = [x for x in prog.fn_by_sig("fmt", ["&Decimal", "&mut Formatter<'_>"]) if x.src and x.src[1] < 100][0]
        t_int, t_dec, obs_kind = ref["t_dbg_int"], ref["t_dbg_dec"], "write_fmt"
    else:
        f = [x for x in prog.fn_by_sig("fmt", ["&Decimal", "&mut Formatter<'_>"]) if x.src and x.src[1] >= 100][0]
        t_int, t_dec, obs_kind = None, ref["t_disp"], "format"
    for p in range(19):
        st = State()
        d = sym_decimal("c", st, p)
        c = d.fields[0].t
        if kind == "string_from":
            args = [d]
        else:
            args = [ref_to(d), formatter(EnumV("Option", 0))]
        ex = new_executor(ctx, prog)
        outs = ex.explore(start_state(f, args, None, st))
        res.absorb(ex, outs)
        A = z3.If(c >= 0, c, -c)
        for i, o in enumerate(outs):
            name = "%s|p=%d|path%d:%s" % (case["id"], p, i, o.kind)
            goal = False
            if o.kind == "return":
                obs = [x for x in o.state.obs if x[0] in ("format", "write_fmt", "int_to_string", "pad_integral")]
                goal = judge(kind, obs, c, A, p, t_int, t_dec, o)
            res.vc(ctx, name, o.state.constraints(), goal, {"c": c}, {"kind": kind, "p": p})
    return res.done()


def run_serde(ctx, res, kind):
    """feature serde-as-str: the derive output (serde(into = "String", try_from = "String")) is executed from the feature MIR with the
    serde traits of String and the (de)serializer as uninterpreted environment"""
    prog = ctx.program("dev-feat")
    serde_fn = lambda nm: [f for f in prog.by_last.get(nm, []) if f.src and f.src[0].endswith("src/lib.rs") and "erializer" in " ".join([f.ret or ""] + [t for _, t in f.params])]
    if kind == "serde_ser":
        c = serde_fn("serialize")
        if len(c) != 1:
            raise Unsupported("derived Serialize::serialize: %d candidates" % len(c))
        sfrom = get_fn(prog, "from", ["Decimal"], "String")     # the function whose output C07 render|string_from pins down
        for p in range(19):
            st = State()
            d = sym_decimal("c", st, p)
            cterm = d.fields[0].t
            seen = {"into": [], "ser": []}

            def c_into(ex, st_, fr, callee, args):
                if "Into<String>" not in callee:
                    return NotImplemented
                seen["into"].append(args[0])
                return Opaque("String", ("String::from(Decimal)", args[0]))

            def c_ser(ex, st_, fr, callee, args):
                if not callee.startswith("<String as"):
                    return NotImplemented
                a = BI._deref_all(ex, st_, args[0])
                seen["ser"].append((a, args[1]))
                return Opaque("ser-result", a)
            ex = new_executor(ctx, prog, contracts={"into": c_into, "serialize": c_ser})
            serializer = Opaque("Serializer")
            outs = ex.explore(start_state(c[0], [ref_to(d), serializer], None, st))
            res.absorb(ex, outs)
            ex.encoded_fns.add(sfrom.name)
            for i, o in enumerate(outs):
                name = "serde|serialize|p=%d|path%d:%s" % (p, i, o.kind)
                goal = False
                v = o.value if o.kind == "return" else None
                if isinstance(v, Opaque) and v.tag == "ser-result" and isinstance(v.payload, Opaque) and v.payload.tag == "String" \
                        and len(seen["ser"]) == 1 and seen["ser"][0][1] is serializer:
                    arg = v.payload.payload[1]
                    goal = z3.And(T.I(arg.fields[0].t) == cterm, T.B(T.eq(arg.fields[1].t, p)))
                res.vc(ctx, name, o.state.constraints(), goal, {"c": cterm}, {"kind": kind, "p": p})
            if len(outs) != 1:
                res.d["inconclusive"].append("derived serialize: %d paths (expected exactly one)" % len(outs))
        return res.done()
    c = serde_fn("deserialize")
    c = [f for f in c if f.kind == "fn" and "closure" not in f.name]
    if len(c) != 1:
        raise Unsupported("derived Deserialize::deserialize: %d candidates" % len(c))
    en = prog.enums
    pde = en["ParseDecimalError"]
    st = State()
    okd = sym_decimal("c", st, 0)
    okd = decimal(okd.fields[0], sym_int("p", "u8", st))
    s_tok = StrV("<string produced by the deserializer>")
    e_tok = Opaque("deserializer-error")
    b_de = T.fresh_bool("de_ok")
    sel = sym_int("from_str_outcome", "u8", st)
    seen = {"from_str": [], "custom": []}

    def c_de(ex, st_, fr, callee, args):
        if not callee.startswith("<String as"):
            return NotImplemented
        from mir2smt.exec import _Alts
        return _Alts([(b_de, EnumV("Result", 0, (s_tok,))), (z3.Not(b_de), EnumV("Result", 1, (e_tok,)))])

    def c_from_str(ex, st_, fr, callee, args):
        if "FromStr" not in callee:
            return NotImplemented
        from mir2smt.exec import _Alts
        a = BI._deref_all(ex, st_, args[0])
        seen["from_str"].append(a)
        alts = [(sel.t == 0, EnumV("Result", 0, (okd,)))]
        for k in range(len(pde)):
            alts.append((sel.t == k + 1, EnumV("Result", 1, (EnumV("ParseDecimalError", k),))))
        return _Alts(alts)

    def c_custom(ex, st_, fr, callee, args):
        return Opaque("Error::custom", args[0])
    ex = new_executor(ctx, prog, contracts={"deserialize": c_de, "from_str": c_from_str, "custom": c_custom})
    st.pc.append(sel.t <= len(pde))
    outs = ex.explore(start_state(c[0], [Opaque("Deserializer")], None, st))
    res.absorb(ex, outs)
    kinds = set()
    for i, o in enumerate(outs):
        name = "serde|deserialize|path%d:%s" % (i, o.kind)
        goal = False
        v = o.value if o.kind == "return" else None
        if isinstance(v, EnumV) and v.ty == "Result":
            if v.variant == 0 and isinstance(v.fields[0], Agg):
                f0 = v.fields[0]
                goal = z3.And(b_de, sel.t == 0, T.I(f0.fields[0].t) == T.I(okd.fields[0].t), T.I(f0.fields[1].t) == T.I(okd.fields[1].t))
                kinds.add("ok")
            elif v.variant == 1 and v.fields[0] is e_tok:
                goal = z3.Not(b_de)
                kinds.add("de-err")
            elif v.variant == 1 and isinstance(v.fields[0], Opaque) and v.fields[0].tag == "Error::custom" and isinstance(v.fields[0].payload, EnumV):
                goal = z3.And(b_de, sel.t == v.fields[0].payload.variant + 1)
                kinds.add("parse-err")
        if seen["from_str"] and not all(a is s_tok for a in seen["from_str"]):
            goal = False
        res.vc(ctx, name, o.state.constraints(), goal, {"c": sel.t}, {"kind": kind, "p": 0})
    if kinds != {"ok", "de-err", "parse-err"}:
        res.d["inconclusive"].append("derived deserialize: outcome kinds reached %s (vacuity guard expects ok, de-err, parse-err)" % sorted(kinds))
    return res.done()


def judge(kind, obs, c, A, p, t_int, t_dec, o):
    """the observed hand-over to core::fmt must be the documented one"""
    try:
        if kind in ("string_from", "debug"):
            fm = [x for x in obs if x[0] in ("format", "write_fmt")]
            if len(fm) != 1:
                return False
            tpl, args = fm[0][1]
            vals = FL.arg_vals(args)
            if p == 0:
                return z3.And(T.B(tpl == t_int), T.B(len(vals) == 1 and vals[0][0] == "display"), T.I(vals[0][2].t) == c) if len(vals) == 1 else False
            if tpl != t_dec or len(vals) != 4:
                return False
            sign = FL.str_of(vals[0][2])
            it, ft, w = T.I(vals[1][2].t), T.I(vals[2][2].t), vals[3][2].t
            return z3.And(T.B(vals[3][0] == "usize"), T.B(T.eq(w, p)), it * 10 ** p + ft == A, ft >= 0, ft < 10 ** p, it >= 0,
                          T.B(sign == "-") == (c < 0), T.B(sign in ("", "-")))
        # Display without precision: sign via pad_integral(is_nonnegative), digits via format / to_string of |c|
        pad = [x for x in obs if x[0] == "pad_integral"]
        if len(pad) != 1:
            return False
        _, nonneg, prefix, buf = pad[0]
        if FL.str_of(prefix) != "":
            return False
        base = T.B(nonneg) == (c >= 0)
        if not (isinstance(buf, Opaque) and buf.tag == "String"):
            return False
        if p == 0:
            if buf.payload[0] != "int_to_string":
                return False
            return z3.And(base, T.I(buf.payload[1].t) == A)
        if buf.payload[0] != "format":
            return False
        tpl, args = buf.payload[1], buf.payload[2]
        vals = FL.arg_vals(args)
        if tpl != t_dec or len(vals) != 3:
            return False
        it, ft, w = T.I(vals[0][2].t), T.I(vals[1][2].t), vals[2][2].t
        return z3.And(base, T.B(T.eq(w, p)), it * 10 ** p + ft == A, ft >= 0, ft < 10 ** p, it >= 0)
    except Unsupported:
        return False


def canonical(c, p):
    s = "-" if c < 0 else ""
    a = abs(c)
    if p == 0:
        return s + str(a)
    return "%s%d.%0*d" % (s, a // 10 ** p, p, a % 10 ** p)


def replay(ctx, native, v):
    c, p, kind = v["inputs"]["c"], v["info"]["p"], v["info"]["kind"]
    if kind in ("serde_ser", "serde_de"):
        # the wiring of the derive output is not observable through a value-level oracle without a concrete (de)serializer: replay with serde_json
        bad = []
        for (cc, pp) in [(c if kind == "serde_ser" else 0, p), (-15, 1), (0, 3), (MAXC, 18), (-MAXC, 0), (7, 0)]:
            line = "5 serde_roundtrip %s" % fmt_dec(cc, pp)
            obs = native["dev"].ask(line)
            if obs != "STR \"%s\" OK %d %d" % (canonical(cc, pp), cc, pp):
                bad.append((line, obs))
        return {"reproduced": bool(bad), "line": bad[0][0] if bad else "5 serde_roundtrip d:1:0", "observed": bad[:3], "expected": "serde_json::to_string gives the canonical string in quotes and from_str gives the value back", "profile": "dev"}
    op = {"string_from": "string_from", "debug": "debug", "display": "tostr"}[kind]
    line = "5 %s %s" % (op, fmt_dec(c, p))
    obs = native["dev"].ask(line)
    want = canonical(c, p)
    if kind == "debug":
        want = "Dec!(%s)" % want
    exp = "STR " + want
    return {"reproduced": obs != exp, "line": line, "observed": obs, "expected": exp, "profile": "dev"}


def confirm_known(ctx, native, ent):
    return False


def cosim(ctx, native):
    import random
    rng = random.Random(ctx.seed + 707)
    n = 0
    vals = [0, 1, -1, MAXC, -MAXC, 10 ** 18, -10 ** 18, 10 ** 18 - 1, 10 ** 37, 5, -5]
    for _ in range(150):
        p = rng.randint(0, 18)
        c = rng.choice(vals + [rng.randint(-MAXC, MAXC), rng.randint(-10 ** (p + 1), 10 ** (p + 1))])
        for op, wrap in (("tostr", "%s"), ("string_from", "%s"), ("debug", "Dec!(%s)")):
            obs = native["dev"].ask("5 %s %s" % (op, fmt_dec(c, p)))
            if obs != "STR " + wrap % canonical(c, p):
                raise NativeViolation("5 %s %s" % (op, fmt_dec(c, p)), obs, "STR " + wrap % canonical(c, p))
        sj = native["dev"].ask("5 serde_roundtrip %s" % fmt_dec(c, p))
        if sj != 'STR "%s" OK %d %d' % (canonical(c, p), c, p):
            raise NativeViolation("5 serde_roundtrip %s" % fmt_dec(c, p), sj, 'STR "%s" OK %d %d' % (canonical(c, p), c, p))
        rt = parse_native(native["dev"].ask("5 roundtrip %s" % fmt_dec(c, p)))
        if rt != ("OK", c, p):
            raise NativeViolation("5 roundtrip %s" % fmt_dec(c, p), rt, ("OK", c, p))
        n += 1
    return n
