"""C15 -- floor, ceil, trunc, fract, abs, neg, magnitude and sign predicates are exact."""
from .common import *
from . import kernels as K

ID = "C15"
META = {
    "bounds": "all coefficients |c| <= 2^127-1, all 19 scales, every unary operation; Kani: i128_magnitude for all 2^128 inputs and Decimal::magnitude for "
              "all (c, p) (bit-precise, no unwinding needed: loop-free)",
    "outside_claim": ["opt-level / LLVM", "num-traits wrappers are checked on the MIR compiled with feature num-traits (thorough tier and quick tier alike)"],
    "assumptions": ["builtin models listed in coverage.builtin_models", "CBMC/Kani bit-precise semantics for the two magnitude harnesses"],
}
UNOPS = ["floor", "ceil", "trunc", "fract", "abs", "neg", "negref", "eq_zero", "eq_one", "is_negative", "is_positive", "magnitude"]
NT = ["nt_is_zero", "nt_is_one", "nt_abs", "nt_signum", "nt_is_positive", "nt_is_negative", "nt_abs_sub", "nt_zero_one", "nt_from_str_radix"]


def configs(ctx):
    return [("dev", ["core", "main"]), ("dev-nt", ["core", "main"])]


def cases(ctx):
    out = [{"id": "unop|%s" % op, "op": op, "weight": 5} for op in UNOPS]
    out += [{"id": "num-traits|%s" % op, "op": op, "weight": 5} for op in NT]
    out.append({"id": "kani|i128_magnitude_all", "op": "kani", "harness": "i128_magnitude_all", "weight": 100})
    out.append({"id": "kani|decimal_magnitude_all", "op": "kani", "harness": "decimal_magnitude_all", "weight": 100})
    return out


def lookup(prog, op):
    if op in ("floor", "ceil", "trunc", "fract", "abs"):
        return get_fn(prog, op, ["&Decimal"], "Decimal"), True
    if op == "neg":
        return get_fn(prog, "neg", ["Decimal"], "Decimal"), False
    if op == "negref":
        return get_fn(prog, "neg", ["&Decimal"], "Decimal"), True
    if op in ("eq_zero", "eq_one", "is_negative", "is_positive"):
        c = [f for f in prog.fn_by_sig(op, ["&Decimal"], "bool") if "num_traits" not in f.name and not (f.src and "num_traits" in f.src[0])]
        if len(c) != 1:
            raise Unsupported("%s: %d candidates" % (op, len(c)))
        return c[0], True
    if op == "magnitude":
        return get_fn(prog, "magnitude", ["Decimal"], "i8"), False
    raise Unsupported(op)


def floor_div(c, p):
    return c // 10 ** p


def spec_unop(op, c, p, o, ex):
    """goal for outcome o"""
    if o.kind != "return":
        return False
    v = o.value
    D = 10 ** p
    if op in ("floor", "ceil", "trunc"):
        r, sc = dec_fields(v)
        r = T.I(r)
        if op == "floor":
            rel = z3.And(r * D <= c, c < (r + 1) * D)
        elif op == "ceil":
            rel = z3.And((r - 1) * D < c, c <= r * D)
        else:
            rel = z3.If(c >= 0, z3.And(r * D <= c, c < (r + 1) * D), z3.And((r - 1) * D < c, c <= r * D))
        return z3.And(rel, T.B(T.eq(sc, 0)))
    if op == "fract":
        r, sc = dec_fields(v)
        r = T.I(r)
        # trunc + fract = d, fract has d's sign (or is zero), |fract| < 1, and d's scale -- Decimal::ZERO (scale 0) for p = 0
        t = T.fresh_int("t")
        q, rem = ex.tdivmod(o.state, c - r, D, "i128")
        return z3.And(T.B(T.eq(rem, 0)), r < D, r > -D, z3.If(c >= 0, r >= 0, r <= 0), T.B(T.eq(sc, p)))
    if op == "abs":
        r, sc = dec_fields(v)
        return z3.And(T.I(r) == z3.If(c >= 0, c, -c), T.B(T.eq(sc, p)))
    if op in ("neg", "negref"):
        r, sc = dec_fields(v)
        return z3.And(T.I(r) == -c, T.B(T.eq(sc, p)))
    if op == "eq_zero":
        return T.B(v) == (c == 0)
    if op == "eq_one":
        return T.B(v) == (c == D)
    if op == "is_negative":
        return T.B(v) == (c < 0)
    if op == "is_positive":
        return T.B(v) == (c > 0)
    if op == "magnitude":
        m = v.t
        if not is_conc(m):
            raise Unsupported("symbolic magnitude")
        k = int(m) + p
        ac = z3.If(c >= 0, c, -c)
        if not (0 <= k <= 38):
            return False
        return z3.If(c == 0, T.B(int(m) == 0), z3.And(ac >= 10 ** k, ac < 10 ** (k + 1)))
    raise Unsupported(op)


def run_case(ctx, case):
    res = Res(case["id"])
    op = case["op"]
    if op == "kani":
        from vfw import kani
        r = kani.run_harness(case["harness"], timeout_s=900)
        res.d["vcs"] += 1
        res.d["distinct"].append(case["id"])
        res.sample({"kani": r["harness"], "status": r["status"], "time_s": r["time_s"], "covers": r["covers"], "sat_vars": r.get("sat_vars")})
        if r["status"] == "success" and (r["covers"] is None or r["covers"][0] == r["covers"][1]):
            res.d["discharged"] += 1
            res.d["distinct"].append(case["id"] + "|covers")
        elif r["status"] == "failed" and r["playback"]:
            pb = r["playback"]
            c = int.from_bytes(bytes(pb[0]), "little", signed=True)
            p = pb[1][0] if len(pb) > 1 else 0
            res.d["violations"].append({"vc": case["id"], "inputs": {"c": c}, "info": {"op": "magnitude" if len(pb) > 1 else "k_magnitude", "p": p, "kani": True}})
        else:
            res.d["inconclusive"].append("kani harness %s: %s (%s) log %s" % (r["harness"], r["status"], r.get("failed_checks"), r["log"]))
        return res.done()
    if op.startswith("nt_"):
        return run_nt(ctx, res, op)
    prog = ctx.program("dev")
    f, byref = lookup(prog, op)
    for p in range(19):
        st = State()
        d = sym_decimal("c", st, p)
        c = d.fields[0].t
        ex = new_executor(ctx, prog, contracts={"i128_magnitude": K.c_magnitude_alts})
        outs = ex.explore(start_state(f, [ref_to(d) if byref else d], None, st))
        res.absorb(ex, outs)
        for i, o in enumerate(outs):
            name = "%s|p=%d|path%d:%s" % (case["id"], p, i, o.kind if o.kind == "return" else panic_class(o))
            goal = spec_unop(op, c, p, o, ex)
            r = res.vc(ctx, name, o.state.constraints(), goal, {"c": c}, {"op": op, "p": p})
            if i == 0 and p in (0, 7):
                res.sample({"vc": name, "status": r.status, "time_s": round(r.time, 4)})
    return res.done()


def run_nt(ctx, res, op):
    prog = ctx.program("dev-nt")
    nt = lambda f: (f.src and "num_traits" in f.src[0]) or "num_traits" in f.name
    if op == "nt_zero_one":
        for nm, val in (("zero", 0), ("one", 1)):
            c = [f for f in prog.by_last.get(nm, []) if nt(f) and not f.params]
            if len(c) != 1:
                raise Unsupported("num_traits %s: %d candidates" % (nm, len(c)))
            ex = new_executor(ctx, prog)
            outs = ex.explore(start_state(c[0], []))
            res.absorb(ex, outs)
            for o in outs:
                ok = o.kind == "return" and is_conc(o.value.fields[0].t) and int(o.value.fields[0].t) == val and int(o.value.fields[1].t) == 0
                res.d["vcs"] += 1
                res.d["distinct"].append("num-traits|%s" % nm)
                if ok:
                    res.d["discharged"] += 1
                else:
                    res.d["violations"].append({"vc": "num-traits|" + nm, "inputs": {}, "info": {"op": op}})
        return res.done()
    if op == "nt_from_str_radix":
        # from_str_radix(s, radix): Err(Invalid) for every radix != 10, and exactly <Decimal as FromStr>::from_str(s) on the same
        # string for radix 10 (from_str itself is the subject of C06; here it is an uninterpreted result token)
        cands = [f for f in prog.by_last.get("from_str_radix", []) if nt(f)]
        if len(cands) != 1:
            raise Unsupported("num_traits from_str_radix: %d candidates" % len(cands))
        st = State()
        radix = sym_int("radix", "u32", st)
        lit = StrV("<symbolic literal>")
        token = Opaque("from_str-result")
        calls = []

        def c_from_str(ex, st_, fr, callee, args):
            if "FromStr" not in callee:
                return NotImplemented
            calls.append(args[0])
            return token
        ex = new_executor(ctx, prog, contracts={"from_str": c_from_str})
        outs = ex.explore(start_state(cands[0], [lit, radix], None, st))
        res.absorb(ex, outs)
        for i, o in enumerate(outs):
            name = "num-traits|from_str_radix|path%d:%s" % (i, o.kind)
            if o.kind != "return":
                goal = False
            elif o.value is token:
                # delegated: only for radix 10, and on the caller's string
                goal = (radix.t == 10) if all(a is lit for a in calls) and calls else False
            else:
                v = o.value
                en = prog.enums
                inv = (isinstance(v, EnumV) and v.ty == "Result" and en["Result"][v.variant] == "Err" and len(v.fields) == 1
                       and isinstance(v.fields[0], EnumV) and v.fields[0].ty == "ParseDecimalError"
                       and en["ParseDecimalError"][v.fields[0].variant] == "Invalid")
                goal = (radix.t != 10) if inv else False
            res.vc(ctx, name, o.state.constraints(), goal, {"c": radix.t}, {"op": op, "p": 0})
        if not any(o.kind == "return" and o.value is token for o in outs) or len(outs) < 2:
            res.d["inconclusive"].append("from_str_radix: the radix-10 delegation path / the rejection path was not reached (vacuity guard)")
        return res.done()
    base = {"nt_is_zero": ("is_zero", "eq_zero"), "nt_is_one": ("is_one", "eq_one"), "nt_abs": ("abs", "abs"), "nt_signum": ("signum", None),
            "nt_is_positive": ("is_positive", "is_positive"), "nt_is_negative": ("is_negative", "is_negative"), "nt_abs_sub": ("abs_sub", None)}[op]
    cands = [f for f in prog.by_last.get(base[0], []) if nt(f)]
    if len(cands) != 1:
        raise Unsupported("num_traits %s: %d candidates" % (base[0], len(cands)))
    f = cands[0]
    if op == "nt_abs_sub":
        pairs = [(p, q) for p in range(19) for q in range(19)] if ctx.tier == "thorough" else scale_pairs(ctx, 30)
        for (p, q) in pairs:
            st = State()
            a = sym_decimal("c", st, p)
            b = sym_decimal("y", st, q)
            x, y = a.fields[0].t, b.fields[0].t
            ex = new_executor(ctx, prog)
            outs = ex.explore(start_state(f, [ref_to(a), ref_to(b)], None, st))
            res.absorb(ex, outs)
            s = max(p, q)
            X, Y = x * 10 ** (s - p), y * 10 ** (s - q)
            for i, o in enumerate(outs):
                name = "num-traits|abs_sub|p=%d,q=%d|path%d:%s" % (p, q, i, o.kind)
                if o.kind == "return":
                    c, sc = dec_fields(o.value)
                    # max(x - y, 0): zero (any scale <= s) if x <= y, else the exact difference at scale max(p, q)
                    goal = z3.If(X <= Y, T.I(c) == 0, z3.And(T.I(c) == X - Y, T.B(T.eq(sc, s))))
                else:
                    fits = z3.And(T.in_range(X, "i128"), T.in_range(Y, "i128"), T.in_range(X - Y, "i128"))
                    goal = z3.And(X > Y, z3.Not(fits)) if is_overflow_panic(o) else False
                res.vc(ctx, name, o.state.constraints(), goal, {"c": x, "y": y}, {"op": op, "p": p, "q": q})
        return res.done()
    for p in range(19):
        st = State()
        d = sym_decimal("c", st, p)
        c = d.fields[0].t
        ex = new_executor(ctx, prog)
        outs = ex.explore(start_state(f, [ref_to(d)], None, st))
        res.absorb(ex, outs)
        for i, o in enumerate(outs):
            name = "num-traits|%s|p=%d|path%d:%s" % (base[0], p, i, o.kind)
            if op == "nt_signum":
                if o.kind == "return":
                    r, sc = dec_fields(o.value)
                    goal = z3.And(T.I(r) == z3.If(c > 0, 1, z3.If(c < 0, -1, 0)), T.B(T.eq(sc, 0)))
                else:
                    goal = False
            else:
                goal = spec_unop(base[1], c, p, o, ex)
            res.vc(ctx, name, o.state.constraints(), goal, {"c": c}, {"op": op, "p": p})
    return res.done()


def replay(ctx, native, v):
    info = v["info"]
    op, p = info["op"], info.get("p", 0)
    c = v["inputs"].get("c", 0)
    nat = native["dev"]
    D = 10 ** p
    if op == "k_magnitude":
        line = "5 k_magnitude %d" % c
        exp = ("INT", len(str(abs(c))) - 1)
    elif op == "nt_abs_sub":
        y, q = v["inputs"]["y"], info["q"]
        line = "5 nt_abs_sub %s %s" % (fmt_dec(c, p), fmt_dec(y, q))
        obs = parse_native(nat.ask(line))
        s = max(p, q)
        X, Y = c * 10 ** (s - p), y * 10 ** (s - q)
        if X <= Y:
            ok = obs[0] == "OK" and obs[1] == 0
        elif all(I128_MIN <= t <= I128_MAX for t in (X, Y, X - Y)):
            ok = obs == ("OK", X - Y, s)
        else:
            ok = obs[0] == "PANIC"
        return {"reproduced": not ok, "line": line, "observed": obs, "expected": "max(x - y, 0)", "profile": "dev"}
    elif op == "nt_from_str_radix":
        lits = ["-17.5", "5.4", "1e3", "abc"]
        bad = []
        for l in lits:
            h = l.encode().hex()
            a = nat.ask(("5 from_str_radix %s %d" % (h, c)) if h else "5 from_str_radix  %d" % c)
            b = nat.ask("5 from_str %s" % h)
            if (c == 10 and a != b) or (c != 10 and a != "ERR Invalid"):
                bad.append((l, a, b))
        return {"reproduced": bool(bad), "line": "5 nt_from_str_radix %d <lit>" % c, "observed": bad, "expected": "from_str for radix 10, Err(Invalid) otherwise", "profile": "dev"}
    elif op == "nt_zero_one":
        return {"reproduced": True, "line": "5 nt_is_zero d:0:0", "observed": "zero()/one() constant differs", "expected": "ZERO / ONE"}
    else:
        nop = op
        line = "5 %s %s" % (nop, fmt_dec(c, p))
        b = op[3:] if op.startswith("nt_") else op
        b = {"is_zero": "eq_zero", "is_one": "eq_one"}.get(b, b)
        if b == "floor":
            exp = ("OK", c // D, 0)
        elif b == "ceil":
            exp = ("OK", -((-c) // D), 0)
        elif b == "trunc":
            exp = ("OK", abs(c) // D * (1 if c >= 0 else -1), 0)
        elif b == "fract":
            exp = ("OK", c - abs(c) // D * (1 if c >= 0 else -1) * D, p)
        elif b == "abs":
            exp = ("OK", abs(c), p)
        elif b in ("neg", "negref"):
            exp = ("OK", -c, p)
        elif b == "signum":
            exp = ("OK", (c > 0) - (c < 0), 0)
        elif b == "eq_zero":
            exp = ("BOOL", c == 0)
        elif b == "eq_one":
            exp = ("BOOL", c == D)
        elif b == "is_negative":
            exp = ("BOOL", c < 0)
        elif b == "is_positive":
            exp = ("BOOL", c > 0)
        elif b == "magnitude":
            exp = ("INT", 0 if c == 0 else len(str(abs(c))) - 1 - p)
        else:
            exp = None
    obs = parse_native(nat.ask(line))
    return {"reproduced": obs != exp, "line": line, "observed": obs, "expected": exp, "profile": "dev"}


def confirm_known(ctx, native, ent):
    w = ent.get("witness")
    return bool(w) and native["dev"].ask(w["line"]) == w["observed"]


def cosim(ctx, native):
    import random
    rng = random.Random(ctx.seed + 1515)
    prog = ctx.program("dev")
    n = 0
    for op in ("floor", "ceil", "trunc", "fract", "abs"):
        f, byref = lookup(prog, op)
        for _ in range(40):
            p = rng.randint(0, 18)
            c = rng.choice([0, 1, -1, 10 ** p, -10 ** p, 10 ** p + 1, -(10 ** p) - 1, 5 * 10 ** max(p - 1, 0), rng.randint(-MAXC, MAXC)])
            ex = new_executor(ctx, prog)
            outs = ex.explore(start_state(f, [ref_to(decimal(IV(c, "i128"), IV(p, "u8")))]))
            assert len(outs) == 1
            mine = ("OK", int(outs[0].value.fields[0].t), int(outs[0].value.fields[1].t))
            obs = parse_native(native["dev"].ask("5 %s %s" % (op, fmt_dec(c, p))))
            if obs != mine:
                raise RuntimeError("MIR interpreter %r vs native %r for %s %s" % (mine, obs, op, (c, p)))
            n += 1
    return n
