"""C20 -- results do not depend on the build profile; overflow is never silent."""
import os
from .common import *
from . import divlib as DL
from . import kernels as K

ID = "C20"
NATIVE_PROFILES = ["dev", "release"]
META = {
    "bounds": "MIR of the same source compiled under {overflow-checks, debug-assertions} = on/on (dev) versus off/off, on/off, off/on and the packed layout "
              "(quick: off/off and packed; thorough: all five); every public operation of C01-C15 in its Decimal/Decimal form and with u8 / i64 / i128 operands "
              "(thorough: all 9 types against the release compilation); both compilations are executed symbolically on the same inputs and every pair of paths must agree on "
              "return-vs-panic and on the returned value; scales, n, exponent and leading-zero classes: the seeded / boundary subsets listed in the cases, in both tiers (deeper grids for the thorough "
              "tier were tried three times and did not finish within 25-100 minutes; VERIF_C20_DEEP=1 selects them for a manual run)",
    "outside_claim": ["opt-level 0 vs 3 and LLVM code generation (MIR is upstream of both): only exercised by replaying every counterexample on the dev and the "
                      "release build of the native driver", "panic messages (only panic-vs-return is compared)"],
    "assumptions": ["builtin models listed in coverage.builtin_models; operator impls of core on primitive integers follow the calling crate's overflow-check setting "
                    "(#[rustc_inherit_overflow_checks])",
                    "kernel contracts are valid in every configuration: their obligations (C04/C05/C16) show that no overflow assert and no debug_assert of the "
                    "kernels is reachable for in-domain inputs, hence the unchecked compilation computes the same values"],
}
CFG_B = {"quick": ["rel", "dev-packed"], "thorough": ["rel", "ovf-nodbg", "noovf-dbg", "dev-packed", "rel-packed"]}

# operations: name -> (method, kind)
BIN = ["add", "sub", "mul", "div", "rem", "checked_add", "checked_sub", "checked_mul", "checked_div", "checked_rem", "div_rounded", "mul_rounded", "eq", "partial_cmp"]
UN = ["round", "checked_round", "floor", "ceil", "trunc", "fract", "abs", "neg", "magnitude", "to_i64", "to_u8", "to_i128", "from_f64", "to_f64", "from_i64"]
RET = {"add": "Decimal", "sub": "Decimal", "mul": "Decimal", "div": "Decimal", "rem": "Decimal", "div_rounded": "Decimal", "mul_rounded": "Decimal",
       "checked_add": "Option<Decimal>", "checked_sub": "Option<Decimal>", "checked_mul": "Option<Decimal>", "checked_div": "Option<Decimal>",
       "checked_rem": "Option<Decimal>", "eq": "bool", "partial_cmp": "Option<Ordering>"}
# known finding ids per operation: dev panics (arithmetic overflow check) where the unchecked build returns a wrapped value
WRAP_SITES = {"add": "release-wrap-add-sub", "sub": "release-wrap-add-sub", "mul": "release-wrap-mul-int", "round": "release-wrap-round"}


def deep(ctx):
    """the thorough tier widens the set of compilations (all five) and of integer types (all nine against release); the per-operation
    parameter grids (scale pairs, n, exponent classes) stay those of the quick tier: three successively smaller "deep" grids were
    tried on 16 idle cores and none finished within 25-100 minutes (DESIGN.md 9.5), so they are not part of a registered command"""
    return os.environ.get("VERIF_C20_DEEP") == "1"


def configs(ctx):
    out = [("dev", ["core", "main"])]
    for c in CFG_B[ctx.tier]:
        out.append((c, ["core", "main"]))
    return out


def cases(ctx):
    out = []
    for cfg in CFG_B[ctx.tier]:
        # thorough: all 9 integer types against the release compilation, the three representative ones against the other four
        tys = INT9 if (ctx.tier == "thorough" and cfg == CFG_B["thorough"][0]) else ["u8", "i64", "i128"]
        for op in BIN:
            out.append({"id": "%s|%s|dec-dec" % (cfg, op), "cfg": cfg, "op": op, "shape": "dd", "weight": 30})
            if op in ("mul_rounded",):
                continue
            for ty in tys:
                for shape in ("di", "id"):
                    out.append({"id": "%s|%s|%s:%s" % (cfg, op, shape, ty), "cfg": cfg, "op": op, "shape": shape, "ty": ty, "weight": 10})
        if cfg == CFG_B[ctx.tier][0]:
            # the kernel contracts used by both sides are only valid in every configuration if no debug_assert / overflow check of
            # the wide kernels is reachable in the dev compilation: re-check that here (a reachable one IS a profile dependence)
            out.append({"id": "kernels|K2c dispatch: no debug_assert reachable", "cfg": cfg, "op": "kernel", "shape": "k", "c16": {"id": "K2c|u256_idiv_u128 dispatch", "kind": "K2c"}, "weight": 20})
            for sg in ("++", "+-", "-+", "--"):
                out.append({"id": "kernels|K3 i256_div_mod_floor|signs=%s" % sg, "cfg": cfg, "op": "kernel", "shape": "k",
                            "c16": {"id": "K3|i256_div_mod_floor|m symbolic|signs=%s" % sg, "kind": "K3a", "p": None, "signs": sg}, "weight": 20})
            for sg in ("+", "-"):
                for k in (0, 1, 18, 19, 36, 38):
                    out.append({"id": "kernels|K3 i128_shifted_div_mod_floor|k=%d|signs=%s" % (k, sg), "cfg": cfg, "op": "kernel", "shape": "k",
                                "c16": {"id": "K3|i128_shifted_div_mod_floor|k=%d|signs=%s" % (k, sg), "kind": "K3b", "k": k, "signs": sg}, "weight": 10})
        for op in UN:
            if op == "from_f64":
                for part in range(6):
                    out.append({"id": "%s|%s|part%d" % (cfg, op, part), "cfg": cfg, "op": op, "shape": "un", "part": part, "weight": 60})
                continue
            out.append({"id": "%s|%s" % (cfg, op), "cfg": cfg, "op": op, "shape": "un", "weight": 10})
    out += rounding_kernel_obligations(ctx)
    return out


def contracts_for(mode):
    c = dict(K.WIDE_CONTRACTS)
    c.update(K.make_rounding_contracts(mode))
    c["checked_div_rounded"] = K.make_cdr_contract(mode)
    c["normalize"] = K.c_normalize
    return c


def sig(o):
    if o.kind != "return":
        return ("panic", panic_class(o))
    return ("ret", o.value)


def val_equal(a, b):
    """formula: two returned values are equal (structurally)"""
    if isinstance(a, IV) and isinstance(b, IV):
        return T.B(T.eq(a.t, b.t))
    if isinstance(a, (bool, z3.BoolRef)) and isinstance(b, (bool, z3.BoolRef)):
        return T.B(a) == T.B(b)
    if isinstance(a, Agg) and isinstance(b, Agg) and len(a.fields) == len(b.fields):
        return z3.And(*[val_equal(x, y) for x, y in zip(a.fields, b.fields)]) if a.fields else True
    if isinstance(a, EnumV) and isinstance(b, EnumV):
        if a.variant != b.variant or len(a.fields) != len(b.fields):
            return False
        return z3.And(*[val_equal(x, y) for x, y in zip(a.fields, b.fields)]) if a.fields else True
    if isinstance(a, FV) and isinstance(b, FV):
        if a.bits is not None and b.bits is not None:
            return T.B(T.eq(a.bits, b.bits))
        if a.src is not None and b.src is not None:
            return T.B(T.eq(a.src[1], b.src[1]))
        return False
    if a is None and b is None:
        return True
    return False


def lookup(prog, op, shape, ty):
    if shape == "un":
        if op in ("round", "checked_round"):
            return get_fn(prog, op, ["Decimal", "i8"], "Option<Decimal>" if op == "checked_round" else "Decimal")
        if op in ("floor", "ceil", "trunc", "fract", "abs"):
            return get_fn(prog, op, ["&Decimal"], "Decimal")
        if op == "neg":
            return get_fn(prog, "neg", ["Decimal"], "Decimal")
        if op == "magnitude":
            return get_fn(prog, "magnitude", ["Decimal"], "i8")
        if op.startswith("to_") and op != "to_f64":
            t = op[3:]
            return get_fn(prog, "try_from", ["Decimal"], "Result<%s, TryFromDecimalError>" % t)
        if op == "from_f64":
            return get_fn(prog, "try_from", ["f64"], "Result<Decimal, DecimalError>")
        if op == "to_f64":
            return get_fn(prog, "from", ["Decimal"], "f64")
        if op == "from_i64":
            return get_fn(prog, "from", ["i64"], "Decimal")
    lty = "Decimal" if shape in ("dd", "di") else ty
    rty = "Decimal" if shape in ("dd", "id") else ty
    pre = "&" if op in ("eq", "partial_cmp") else ""
    extra = ["u8"] if op in ("div_rounded", "mul_rounded") else []
    return get_fn(prog, op, [pre + lty, pre + rty] + extra, RET[op])


def scale_sets(ctx, op, shape, cfg=None):
    if deep(ctx):
        s19 = list(range(19))
        allp = [(p, q) for p in s19 for q in s19]
        # boundary pairs + a stride over all 361: every 6th against the release compilation, every 19th against the other four (the full
        # product, and a first reduction to all pairs against release only, both ran for far more than an hour on 16 cores)
        step = 6 if (cfg is None or cfg == CFG_B["thorough"][0]) else 19
        pairs = [pq for i, pq in enumerate(allp) if i % step == 0 or pq[0] in (0, 18) and pq[1] in (0, 18) or abs(pq[0] - pq[1]) <= 1 and pq[0] in (0, 9, 18)]
    else:
        s19 = [0, 1, 9, 18]
        pairs = [(0, 0), (0, 18), (18, 0), (18, 18), (3, 5), (9, 10), (10, 9), (1, 0)]
    if shape == "dd":
        return pairs
    return [(p, 0) for p in s19]


def run_float_spec(ctx, case):
    """f64/f32 -> Decimal: the pairwise differential explodes (hundreds of paths per exponent class on each side), so the
    other compilation is checked against the same functional spec as the dev compilation (C13); both satisfying one
    deterministic spec implies equal outcomes"""
    from . import C13
    res = Res(case["id"])
    sub = C13.cases(ctx)
    if (not deep(ctx)):
        sub = [c for i, c in enumerate(sub) if i % 12 == 0 or c["kind"] == "Erange" or c.get("E") in (0, 2047, 255)]
    sub = [c for i, c in enumerate(sub) if i % 6 == case.get("part", 0)]
    ctx.cfg_override = case["cfg"]
    try:
        for c in sub:
            r = C13.run_case(ctx, c)
            for k in ("vcs", "discharged", "paths"):
                res.d[k] += r.get(k, 0)
            res.d["solver_time"] += r.get("solver_time", 0)
            res.d["distinct"].extend(r.get("distinct", []))
            res.d["inconclusive"].extend(r.get("inconclusive", []))
            for v in r.get("violations", []):
                v["info"]["via"] = "C13"
                v["info"]["cfg"] = case["cfg"]
                res.d["violations"].append(v)
            res.d["fns"].update(r.get("fns", []))
            if len(res.d["samples"]) < 2:
                res.d["samples"].extend(r.get("samples", [])[:1])
    finally:
        ctx.cfg_override = None
    return res.done()


def run_case(ctx, case):
    if case.get("delegate"):
        return run_delegated(ctx, case)
    cfgB, op, shape = case["cfg"], case["op"], case["shape"]
    if op == "from_f64":
        return run_float_spec(ctx, case)
    if op == "kernel":
        from . import C16
        r = C16.run_case(ctx, case["c16"])
        for v in r.get("violations", []):
            v["info"]["via"] = "C16"
        r["case"] = case["id"]
        return r
    ty = case.get("ty")
    pa = ctx.program("dev")
    pb = ctx.program(cfgB)
    res = Res(case["id"])
    fa = lookup(pa, op, shape, ty)
    fb = lookup(pb, op, shape, ty)
    mode = (len(op) * 5 + len(cfgB)) % 8
    restrict = op in ("mul", "div", "rem", "checked_mul", "checked_div", "checked_rem", "div_rounded")
    runs = []
    if shape == "un":
        if op in ("round", "checked_round"):
            ns = [-128, -39, -38, -37, -20, -19, -3, -1, 0, 1, 5, 17, 18, 19, 127]
            if deep(ctx):
                ns = sorted(set(ns) | set(range(-128, 128, 8)) | set(range(-40, 20, 3)))
            for p in ([0, 1, 9, 18] if (not deep(ctx)) else range(19)):
                for n in ns:
                    runs.append((p, None, n))
        elif op == "from_f64":
            for E in ([0, 1, 948, 949, 1000, 1022, 1023, 1024, 1075, 1076, 1150, 1202, 1203, 2046, 2047] if (not deep(ctx)) else sorted(set([0, 1, 948, 949, 1000, 1022, 1023, 1024, 1075, 1076, 1150, 1202, 1203, 2046, 2047]) | set(range(0, 2048, 32)))):
                for sg in (0, 1):
                    runs.append((E, sg, None))
        elif op == "to_f64":
            for p in ([1, 9, 18] if (not deep(ctx)) else range(1, 19)):
                for lz in ([1, 64, 100, 127] if (not deep(ctx)) else sorted(set([1, 64, 100, 127]) | set(range(1, 128, 8)))):
                    for sg in (0, 1):
                        runs.append((p, lz, sg))
            runs.append((0, None, None))
        elif op == "from_i64":
            runs.append((0, None, None))
        else:
            for p in (range(19) if deep(ctx) or op in ("magnitude",) else [0, 1, 9, 18]):
                runs.append((p, None, None))
    else:
        ns = [None]
        if op in ("div_rounded", "mul_rounded"):
            ns = ([0, 1, 9, 18, 19, 250] if (not deep(ctx)) else list(range(0, 20)) + [37, 38, 39, 237, 238, 250, 255])
        pq = scale_sets(ctx, op, shape, cfgB)
        if deep(ctx) and len(ns) > 6:
            # every n for the boundary pairs, four representative n for all pairs (27 n x 361 pairs x 5 configurations does not finish in hours)
            few = [(p, q) for (p, q) in pq if p in (0, 9, 18) and q in (0, 9, 18)]
            for (p, q) in pq:
                for n in (ns if (p, q) in few else [0, 9, 18, 19]):
                    runs.append((p, q, n))
        else:
            for (p, q) in pq:
                for n in ns:
                    runs.append((p, q, n))
    for (p, q, n) in runs:
        st = State()
        xt = yt = None
        if shape == "un":
            if op == "from_f64":
                F = sym_int("x", "u64", st, hi=(1 << 52) - 1)
                hi_c = q * 2048 + p
                bits = hi_c * (1 << 52) + F.t
                st.tags[("split", bits.get_id())] = (bits, 52, hi_c, F.t)
                args = [FV(bits, "f64")]
                xt = F.t
            elif op == "to_f64" and q is not None:
                d = sym_decimal("x", st, p)
                xt = d.fields[0].t
                A = -xt if n else xt
                st.assume_sign(xt, not n)
                st.defs.append(z3.And(A >= (1 << (127 - q)), A <= min((1 << (128 - q)) - 1, MAXC)))
                st.tags["lz_hints"] = (q,)
                args = [d]
            elif op == "from_i64":
                i = sym_int("x", "i64", st)
                args = [i]
                xt = i.t
            else:
                d = sym_decimal("x", st, p)
                xt = d.fields[0].t
                if op in ("round", "checked_round"):
                    args = [d, IV(n, "i8")]
                elif op in ("floor", "ceil", "trunc", "fract", "abs"):
                    args = [ref_to(d)]
                else:
                    args = [d]
            argsB = args
        else:
            a, xt, p_ = DL.operand(st, "x", "Decimal" if shape in ("dd", "di") else ty, p, None, restrict=restrict)
            b, yt, q_ = DL.operand(st, "y", "Decimal" if shape in ("dd", "id") else ty, q if shape != "di" else 0, None, restrict=restrict)
            if shape == "id":
                # integer on the left, Decimal (scale p) on the right
                st = State()
                a, xt, _ = DL.operand(st, "x", ty, 0, None, restrict=restrict)
                b, yt, _ = DL.operand(st, "y", "Decimal", p, None, restrict=restrict)
            args = [a, b]
            if op in ("eq", "partial_cmp"):
                args = [ref_to(a), ref_to(b)]
            if n is not None:
                args.append(IV(n, "u8"))
            argsB = args
        st.mark_inputs()
        cA = contracts_for(mode)
        if op == "from_f64":
            cA["i128_magnitude"] = K.c_magnitude_alts
        exA = new_executor(ctx, pa, mode=mode, contracts=cA, unwind=25)
        if op == "from_f64":
            exA.cuts["approx_rational"] = K.approx_rational_cut()
        outsA = exA.explore(start_state(fa, args, {"Self": "f64"} if op == "to_f64" else None, st))
        res.absorb(exA, outsA)
        for ia, oa in enumerate(outsA):
            s2 = oa.state.copy()
            s2.frames = []
            s2.tags.pop("finish_panic", None)
            s2.tags["feas_unknowns"] = 0
            exB = new_executor(ctx, pb, mode=mode, contracts=cA, unwind=25)
            if op == "from_f64":
                exB.cuts["approx_rational"] = K.approx_rational_cut()
                s2.mark_inputs()
            outsB = exB.explore(start_state(fb, argsB, {"Self": "f64"} if op == "to_f64" else None, s2))
            res.absorb(exB, outsB)
            sa = sig(oa)
            for ib, ob in enumerate(outsB):
                sb = sig(ob)
                name = "%s|p=%s,q=%s,n=%s|dev-path%d(%s) x %s-path%d(%s)" % (case["id"], p, q, n, ia, sa[0] if sa[0] == "ret" else sa[1], cfgB, ib,
                                                                            sb[0] if sb[0] == "ret" else sb[1])
                info = {"op": op, "shape": shape, "ty": ty, "p": p, "q": q, "n": n, "mode": mode, "cfg": cfgB}
                if sa[0] == "panic" and sb[0] == "panic":
                    goal = True
                elif sa[0] != sb[0]:
                    goal = False
                    site = WRAP_SITES.get(op)
                    if op == "mul" and shape == "dd":
                        site = None
                    if (site and site in ctx.active_regions and sa[0] == "panic" and sa[1] == "overflow" and sb[0] == "ret"):
                        # known finding: the operator relies on rustc's overflow check; the unchecked build returns a wrapped value
                        res.d.setdefault("known_hits", {}).setdefault(site, 0)
                        res.d["known_hits"][site] += 1
                        continue
                else:
                    goal = val_equal(sa[1], sb[1])
                r = res.vc(ctx, name, ob.state.pruned_constraints(goal), goal, {"x": xt, "y": yt} if yt is not None else {"x": xt}, info)
                if ia == 0 and ib == 0 and len(res.d["samples"]) < 2:
                    res.sample({"vc": name, "status": r.status, "time_s": round(r.time, 4)})
    return res.done()


def native_line(info, inputs):
    op, shape, ty, p, q, n, mode = info["op"], info["shape"], info["ty"], info["p"], info["q"], info["n"], info["mode"]
    x = inputs.get("x")
    y = inputs.get("y")
    if shape == "un":
        if op in ("round", "checked_round"):
            return "%d %s %s %d" % (mode, "cround" if op == "checked_round" else "round", fmt_dec(x, p), n)
        if op == "from_f64":
            return "%d from_f64 %d" % (mode, ((q * 2048 + p) << 52) + x)
        if op == "from_i64":
            return "%d from_int i64 %d" % (mode, x)
        if op.startswith("to_") and op != "to_f64":
            return "%d to_int %s %s" % (mode, op[3:], fmt_dec(x, p))
        return "%d %s %s" % (mode, op, fmt_dec(x, p))
    nat = {"add": "add", "sub": "sub", "mul": "mul", "div": "div", "rem": "rem", "checked_add": "cadd", "checked_sub": "csub", "checked_mul": "cmul",
           "checked_div": "cdiv", "checked_rem": "crem", "div_rounded": "drnd", "mul_rounded": "mrnd", "eq": "eq", "partial_cmp": "pcmp"}[op]
    if shape == "dd":
        l, r = fmt_dec(x, p), fmt_dec(y, q)
    elif shape == "di":
        l, r = fmt_dec(x, p), "%s:%d" % (ty, y)
    else:
        l, r = "%s:%d" % (ty, x), fmt_dec(y, p)
    return "%d bin %s vv %s %s%s" % (mode, nat, l, r, "" if n is None else " %d" % n)


def replay(ctx, native, v):
    if v.get("info", {}).get("delegate"):
        return replay_delegated(ctx, native, v)
    if v["info"].get("via") == "C16":
        from . import C16
        r1 = C16.replay(ctx, {"dev": native["dev"]}, v)
        r2 = C16.replay(ctx, {"dev": native["release"]}, v)
        o1, o2 = str(r1.get("observed")), str(r2.get("observed"))
        n1 = "PANIC" if "PANIC" in o1 else o1
        n2 = "PANIC" if "PANIC" in o2 else o2
        return {"reproduced": n1 != n2, "line": r1.get("line"), "observed": {"dev": o1, "release": o2}, "expected": "identical outcome in both profiles", "profile": "dev+release"}
    if v["info"].get("via") == "C13":
        from . import C13
        r = C13.replay(ctx, {"dev": native["release"]}, v)
        r["profile"] = "release"
        return r
    line = native_line(v["info"], v["inputs"])
    o1 = native["dev"].ask(line)
    o2 = native["release"].ask(line)
    n1 = "PANIC" if o1.startswith("PANIC") else o1
    n2 = "PANIC" if o2.startswith("PANIC") else o2
    return {"reproduced": n1 != n2, "line": line, "observed": {"dev": o1, "release": o2}, "expected": "identical outcome in both profiles", "profile": "dev+release"}


def confirm_known(ctx, native, ent):
    w = ent.get("witness")
    if not w:
        return False
    o1 = native["dev"].ask(w["line"])
    o2 = native["release"].ask(w["line"])
    return o1.startswith("PANIC") and o2 == w["observed_release"]
