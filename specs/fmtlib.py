"""Shared pieces for the formatting checks (C07, C11): reference templates and argument decoding."""
import os
import re
import subprocess
from vfw import build
from .common import *

_REF = {}


def reference_templates(ctx):
    """byte templates the same compiler produces for the documented format strings (reference crate /verif/fmtref)"""
    if _REF:
        return _REF
    cmd = ["cargo", "+nightly", "rustc", "--offline", "--lib", "--target-dir", os.path.join(build.BUILD, "t-fmtref"), "--", "-Zunpretty=mir"]
    os.utime(os.path.join(build.VERIF, "fmtref", "src", "lib.rs"), None)
    p = subprocess.run(cmd, cwd=os.path.join(build.VERIF, "fmtref"), env=build.ENV, stdout=subprocess.PIPE, stderr=subprocess.PIPE)
    if p.returncode != 0:
        raise Unsupported("reference template crate does not build: " + p.stderr.decode()[-300:])
    cur = None
    from mir2smt.exec import _unescape
    for ln in p.stdout.decode().split("\n"):
        m = re.match(r"^fn (t_\w+)\(", ln)
        if m:
            cur = m.group(1)
        m = re.search(r'const b"((?:[^"\\]|\\.)*)"', ln)
        if m and cur:
            _REF[cur] = _unescape(m.group(1), True)
    if len(_REF) < 5:
        raise Unsupported("reference templates not found")
    return _REF


def arg_vals(args):
    """[(kind, value)] of a recorded fmt argument array"""
    out = []
    for a in args:
        if not (isinstance(a, Opaque) and a.tag == "fmtarg"):
            raise Unsupported("unexpected fmt argument %r" % (a,))
        kind, ty, v = a.payload
        out.append((kind, ty, v))
    return out


def str_of(v):
    while isinstance(v, RefV):
        raise Unsupported("unresolved reference in fmt argument")
    if isinstance(v, StrV):
        return v.s
    raise Unsupported("not a string constant: %r" % (v,))
