"""C14 -- integer conversions are exact and total with precise error kinds."""
from .common import *

ID = "C14"
META = {
    "bounds": "From<T> for the 9 integer types over their whole range, TryFrom<u128>, TryFrom<Decimal> for all 10 primitive targets: all coefficients "
              "|c| <= 2^127-1, all 19 scales; loop-free",
    "outside_claim": ["TryFrom between primitive integers and the `as`-free widening From impls of core (documented behaviour, modelled)", "opt-level / LLVM"],
    "assumptions": ["builtin models listed in coverage.builtin_models"],
}
TARGETS = ["u8", "i8", "u16", "i16", "u32", "i32", "u64", "i64", "u128", "i128"]


def configs(ctx):
    return [("dev", ["core", "main"])]


def cases(ctx):
    out = [{"id": "from|%s" % ty, "kind": "from", "ty": ty, "weight": 1} for ty in INT9]
    out.append({"id": "try_from|u128", "kind": "from_u128", "weight": 1})
    for ty in TARGETS:
        out.append({"id": "try_into|%s" % ty, "kind": "into", "ty": ty, "weight": 5})
    return out


def run_case(ctx, case):
    prog = ctx.program("dev")
    res = Res(case["id"])
    kind = case["kind"]
    if kind == "from":
        ty = case["ty"]
        f = get_fn(prog, "from", [ty], "Decimal")
        st = State()
        i = sym_int("i", ty, st)
        ex = new_executor(ctx, prog)
        outs = ex.explore(start_state(f, [i], None, st))
        res.absorb(ex, outs)
        for k, o in enumerate(outs):
            goal = False
            if o.kind == "return":
                c, sc = dec_fields(o.value)
                goal = z3.And(T.I(c) == i.t, T.B(T.eq(sc, 0)))
            res.vc(ctx, "%s|path%d" % (case["id"], k), o.state.constraints(), goal, {"i": i.t}, {"kind": kind, "ty": ty})
        return res.done()
    if kind == "from_u128":
        f = get_fn(prog, "try_from", ["u128"], "Result<Decimal, DecimalError>")
        st = State()
        i = sym_int("i", "u128", st)
        ex = new_executor(ctx, prog)
        outs = ex.explore(start_state(f, [i], None, st))
        res.absorb(ex, outs)
        for k, o in enumerate(outs):
            goal = False
            if o.kind == "return" and o.value.variant == 0:
                c, sc = dec_fields(o.value.fields[0])
                goal = z3.And(i.t <= I128_MAX, T.I(c) == i.t, T.B(T.eq(sc, 0)))
            elif o.kind == "return":
                e = o.value.fields[0]
                goal = z3.And(i.t > I128_MAX, T.B(prog.enums["DecimalError"][e.variant] == "InternalOverflow"))
            res.vc(ctx, "%s|path%d" % (case["id"], k), o.state.constraints(), goal, {"i": i.t}, {"kind": kind})
        return res.done()
    ty = case["ty"]
    f = get_fn(prog, "try_from", ["Decimal"], "Result<%s, TryFromDecimalError>" % ty)
    lo, hi = ty_range(ty)
    for p in range(19):
        st = State()
        d = sym_decimal("c", st, p)
        c = d.fields[0].t
        ex = new_executor(ctx, prog)
        outs = ex.explore(start_state(f, [d], None, st))
        res.absorb(ex, outs)
        qq = T.fresh_int("vq")
        rr = T.fresh_int("vr")
        spec_defs = [c == qq * 10 ** p + rr, z3.If(c >= 0, z3.And(rr >= 0, rr < 10 ** p), z3.And(rr <= 0, rr > -10 ** p))]
        integral = (rr == 0)
        for k, o in enumerate(outs):
            goal = False
            if o.kind == "return" and o.value.variant == 0:
                goal = z3.And(integral, T.I(o.value.fields[0].t) == qq, qq >= lo, qq <= hi)
            elif o.kind == "return":
                err = prog.enums["TryFromDecimalError"][o.value.fields[0].variant]
                if err == "NotAnIntValue":
                    goal = z3.Not(integral)
                else:
                    goal = z3.And(integral, z3.Or(qq < lo, qq > hi))
            res.vc(ctx, "%s|p=%d|path%d" % (case["id"], p, k), o.state.constraints() + spec_defs, goal, {"c": c}, {"kind": kind, "ty": ty, "p": p})
    return res.done()


def replay(ctx, native, v):
    info = v["info"]
    nat = native["dev"]
    if info["kind"] == "from":
        i = v["inputs"]["i"]
        line = "5 from_int %s %d" % (info["ty"], i)
        exp = ("OK", i, 0)
    elif info["kind"] == "from_u128":
        i = v["inputs"]["i"]
        line = "5 from_u128 %d" % i
        exp = ("OK", i, 0) if i <= I128_MAX else ("ERR", "InternalOverflow")
    else:
        c, p, ty = v["inputs"]["c"], info["p"], info["ty"]
        line = "5 to_int %s %s" % (ty, fmt_dec(c, p))
        lo, hi = ty_range(ty)
        if c % 10 ** p != 0:
            exp = ("ERR", "NotAnIntValue")
        else:
            q = abs(c) // 10 ** p * (1 if c >= 0 else -1)
            exp = ("INT", q) if lo <= q <= hi else ("ERR", "ValueOutOfRange")
    obs = parse_native(nat.ask(line))
    return {"reproduced": obs != exp, "line": line, "observed": obs, "expected": exp, "profile": "dev"}


def confirm_known(ctx, native, ent):
    return False


def cosim(ctx, native):
    import random
    rng = random.Random(ctx.seed + 1414)
    prog = ctx.program("dev")
    n = 0
    for ty in TARGETS:
        f = get_fn(prog, "try_from", ["Decimal"], "Result<%s, TryFromDecimalError>" % ty)
        lo, hi = ty_range(ty)
        for _ in range(25):
            p = rng.randint(0, 18)
            c = rng.choice([0, 10 ** p, -10 ** p, hi * 10 ** p, (hi + 1) * 10 ** p, lo * 10 ** p, (lo - 1) * 10 ** p, rng.randint(-MAXC, MAXC), 7 * 10 ** max(p - 1, 0)])
            if abs(c) > MAXC:
                c = rng.randint(-255, 255) * 10 ** p
                if abs(c) > MAXC:
                    c = 5
            ex = new_executor(ctx, prog)
            outs = ex.explore(start_state(f, [decimal(IV(c, "i128"), IV(p, "u8"))]))
            assert len(outs) == 1
            v = outs[0].value
            mine = ("INT", int(v.fields[0].t)) if v.variant == 0 else ("ERR", prog.enums["TryFromDecimalError"][v.fields[0].variant])
            obs = parse_native(native["dev"].ask("5 to_int %s %s" % (ty, fmt_dec(c, p))))
            if obs != mine:
                raise RuntimeError("MIR interpreter %r vs native %r for %s %s" % (mine, obs, ty, (c, p)))
            n += 1
    return n
