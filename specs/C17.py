"""C17 -- all operand forms of an operator compute the same function."""
from .common import *
from . import divlib as DL
from . import kernels as K
from mir2smt.mirparse import norm_type

ID = "C17"
META = {
    "bounds": "(a) wiring: every by-reference and compound-assignment impl found in the MIR (enumerated, all 9 integer types, all operations) must call the "
              "by-value impl exactly once with the dereferenced operands and hand its result back unchanged; (b) differential: for each operation, integer type "
              "(quick: u8, i64, i128; thorough: all 9), position and scale, the integer-operand impl and the Decimal/Decimal impl applied to Decimal::from(i) are "
              "executed on the same symbolic inputs and every pair of paths must agree (value, scale for +/-, panic/None); all coefficients and integer values; scales: thorough all 19, quick {0,1,2,9,17,18} (div_rounded: n in {0,9,18})",
    "outside_claim": ["opt-level / LLVM", "integer operands i128::MIN for the multiplicative operations (sign normalisation overflows in both forms)"],
    "assumptions": ["builtin models listed in coverage.builtin_models", "contracts for the rounding kernels shared by both sides (obligations C04/C05/C16)"],
}
OPS2 = ["add", "sub", "mul", "div", "rem", "checked_add", "checked_sub", "checked_mul", "checked_div", "checked_rem"]
ASSIGN = {"add_assign": "add", "sub_assign": "sub", "mul_assign": "mul", "div_assign": "div", "rem_assign": "rem"}
RET = {"add": "Decimal", "sub": "Decimal", "mul": "Decimal", "div": "Decimal", "rem": "Decimal", "div_rounded": "Decimal", "mul_rounded": "Decimal",
       "checked_add": "Option<Decimal>", "checked_sub": "Option<Decimal>", "checked_mul": "Option<Decimal>", "checked_div": "Option<Decimal>",
       "checked_rem": "Option<Decimal>", "eq": "bool", "partial_cmp": "Option<Ordering>"}


def configs(ctx):
    return [("dev", ["core", "main"])]


def cases(ctx):
    out = [{"id": "wiring|%s" % op, "kind": "wiring", "op": op, "weight": 10} for op in OPS2 + ["div_rounded", "mul_rounded"] + list(ASSIGN)]
    out.append({"id": "wiring|eq int==Decimal", "kind": "wiring_eq", "weight": 5})
    tys = INT9 if ctx.tier == "thorough" else ["u8", "i64", "i128"]
    for ty in tys:
        for op in OPS2 + ["div_rounded", "eq", "partial_cmp"]:
            for pos in ("di", "id"):
                out.append({"id": "diff|%s|%s:%s" % (op, pos, ty), "kind": "diff", "op": op, "pos": pos, "ty": ty, "weight": 20})
        out.append({"id": "diff|div_rounded|ii:%s" % ty, "kind": "diff", "op": "div_rounded", "pos": "ii", "ty": ty, "weight": 10})
    out += rounding_kernel_obligations(ctx)
    return out


def is_ref(t):
    return norm_type(t).startswith("&")


def run_wiring(ctx, prog, res, case):
    op = case["op"]
    fns = prog.by_last.get(op, [])
    n_checked = 0
    for f in fns:
        ptys = [norm_type(p[1]) for p in f.params]
        if op in ASSIGN:
            if ptys != ["&mut Decimal", "T"]:
                continue
            variants = [("Decimal", {"T": "Decimal"})] + [(ty, {"T": ty}) for ty in INT9]
        else:
            if len(ptys) < 2 or not (is_ref(ptys[0]) or is_ref(ptys[1])) or ptys[0].startswith("&mut"):
                continue
            if f.ret is None or norm_type(f.ret) != RET.get(op, "?") and "Output" not in f.ret:
                continue
            variants = [(None, None)]
        for vty, subst in variants:
            st = State()
            args = []
            plain = []
            names = ["a", "b"]
            for k, pty in enumerate(ptys[:2]):
                base = pty.lstrip("&").replace("mut ", "").strip()
                if subst and base == "T":
                    base = vty
                if base == "Decimal":
                    v = sym_decimal(names[k], st, 7 + k)
                elif base in INT_TYPES:
                    v = sym_int(names[k], base, st)
                else:
                    v = None
                if v is None:
                    break
                plain.append(v)
                if pty.startswith("&mut"):
                    st.heap[("cell", "lhs")] = v
                    args.append(RefV(box=("cell", "lhs")))
                elif pty.startswith("&"):
                    args.append(ref_to(v))
                else:
                    args.append(v)
            else:
                extra = []
                if len(ptys) == 3:
                    nn = sym_int("n", "u8", st)
                    args.append(nn)
                    extra = [nn]
                calls = []
                token = decimal(IV(z3.Int("tok_c"), "i128"), IV(z3.Int("tok_s"), "u8"))
                base_op = ASSIGN.get(op, op)
                tokv = token if not RET[base_op].startswith("Option") else EnumV("Option", 1, (token,))
                if RET[base_op] == "bool":
                    tokv = z3.Bool("tok_b")

                def c_base(ex, st_, fr, callee, a, calls=calls, tokv=tokv):
                    if any(isinstance(x, RefV) for x in a[:2]):
                        return NotImplemented
                    calls.append(a)
                    return tokv
                ex = new_executor(ctx, prog, contracts={base_op: c_base})
                outs = ex.explore(start_state(f, args, subst, st))
                res.absorb(ex, outs)
                name = "wiring|%s|%s%s" % (op, f.name[-60:], "|T=%s" % vty if vty else "")
                res.d["vcs"] += 1
                res.d["distinct"].append(name)
                ok = len(outs) == 1 and outs[0].kind == "return" and len(calls) == 1
                if ok:
                    a = calls[0]
                    same = all(_same_val(x, y) for x, y in zip(a, plain + extra)) and len(a) == len(plain + extra)
                    rv = outs[0].value if op not in ASSIGN else outs[0].state.heap[("cell", "lhs")]
                    ok = same and _same_val(rv, tokv)
                if ok:
                    res.d["discharged"] += 1
                else:
                    res.d["violations"].append({"vc": name, "inputs": {}, "info": {"kind": "wiring", "fn": f.name, "op": op}})
                n_checked += 1
                if n_checked <= 2:
                    res.sample({"vc": name, "calls_to_base": len(calls), "ok": ok})
    expected_min = {"div_rounded": 3 * (1 + 27), "mul_rounded": 3}.get(op, 10 if op in ASSIGN else 3 * (1 + 18))
    res.d["vcs"] += 1
    res.d["distinct"].append("wiring|%s|impl count" % op)
    if n_checked >= expected_min:
        res.d["discharged"] += 1
    else:
        res.d["inconclusive"].append("only %d forwarding impls of %s found in the MIR (expected at least %d)" % (n_checked, op, expected_min))
    return res.done()


def _same_val(x, y):
    if isinstance(x, IV) and isinstance(y, IV):
        return T.term_id(x.t) == T.term_id(y.t)
    if isinstance(x, Agg) and isinstance(y, Agg):
        return len(x.fields) == len(y.fields) and all(_same_val(a, b) for a, b in zip(x.fields, y.fields))
    if isinstance(x, EnumV) and isinstance(y, EnumV):
        return x.variant == y.variant and all(_same_val(a, b) for a, b in zip(x.fields, y.fields))
    if isinstance(x, z3.BoolRef) and isinstance(y, z3.BoolRef):
        return x.get_id() == y.get_id()
    return x is y


def contracts_for(mode):
    c = dict(K.WIDE_CONTRACTS)
    c.update(K.make_rounding_contracts(mode))
    c["normalize"] = K.c_normalize
    return c


def outcome_sig(op, o):
    """normalised description of an outcome: ('fail',) | ('val', coeff, scale) | ('bool', term) | ('ord', k)"""
    if o.kind != "return":
        return ("fail",)
    v = o.value
    if RET[op].startswith("Option<Decimal"):
        if v.variant == 0:
            return ("fail",)
        v = v.fields[0]
    if RET[op] == "bool":
        return ("bool", v)
    if RET[op] == "Option<Ordering>":
        return ("ord", v.fields[0].variant if v.variant == 1 else None)
    c, s = dec_fields(v)
    return ("val", c, s)


def run_diff(ctx, prog, res, case):
    op, pos, ty = case["op"], case["pos"], case["ty"]
    mode = (INT9.index(ty) * 3 + len(op)) % 8
    restrict = op in ("mul", "div", "rem", "checked_mul", "checked_div", "checked_rem", "div_rounded")
    extra_p = ["u8"] if op == "div_rounded" else []
    byref = op in ("eq", "partial_cmp")
    pre = "&" if byref else ""
    lty = "Decimal" if pos == "di" else ty
    rty = "Decimal" if pos == "id" else ty
    f_int = get_fn(prog, op, [pre + lty, pre + rty] + extra_p, RET[op])
    f_dec = get_fn(prog, op, [pre + "Decimal", pre + "Decimal"] + extra_p, RET[op])
    scales = (list(range(19)) if ctx.tier == "thorough" else [0, 1, 2, 9, 17, 18]) if pos != "ii" else [0]
    nlist = [None]
    if op == "div_rounded":
        nlist = list(range(19)) if ctx.tier == "thorough" else [0, 9, 18]
    for p in scales:
        for n in nlist:
            st = State()
            i1 = i2 = None
            if pos == "di":
                d = sym_decimal("x", st, p)
                i2 = int_arg("y", ty, st, restrict_i128=restrict)
                a_int, a_dec = [d, i2], [d, decimal(IV(i2.t, "i128"), IV(0, "u8"))]
                xt, yt, sp, sq = d.fields[0].t, i2.t, p, 0
            elif pos == "id":
                d = sym_decimal("y", st, p)
                i1 = int_arg("x", ty, st, restrict_i128=restrict)
                a_int, a_dec = [i1, d], [decimal(IV(i1.t, "i128"), IV(0, "u8")), d]
                xt, yt, sp, sq = i1.t, d.fields[0].t, 0, p
            else:
                i1 = int_arg("x", ty, st, restrict_i128=restrict)
                i2 = int_arg("y", ty, st, restrict_i128=restrict)
                a_int, a_dec = [i1, i2], [decimal(IV(i1.t, "i128"), IV(0, "u8")), decimal(IV(i2.t, "i128"), IV(0, "u8"))]
                xt, yt, sp, sq = i1.t, i2.t, 0, 0
            if byref:
                a_int = [ref_to(v) for v in a_int]
                a_dec = [ref_to(v) for v in a_dec]
            if n is not None:
                a_int = a_int + [IV(n, "u8")]
                a_dec = a_dec + [IV(n, "u8")]
            ex = new_executor(ctx, prog, mode=mode, contracts=contracts_for(mode), unwind=25)
            outs_a = ex.explore(start_state(f_int, a_int, None, st))
            res.absorb(ex, outs_a)
            for ia, oa in enumerate(outs_a):
                sa = outcome_sig(op, oa)
                s2 = oa.state.copy()
                s2.frames = []
                s2.tags.pop("finish_panic", None)
                ex2 = new_executor(ctx, prog, mode=mode, contracts=contracts_for(mode), unwind=25)
                outs_b = ex2.explore(start_state(f_dec, a_dec, None, s2))
                res.absorb(ex2, outs_b)
                for ib, ob in enumerate(outs_b):
                    sb = outcome_sig(op, ob)
                    name = "diff|%s|%s:%s|p=%d%s|int-path%d(%s) x dec-path%d(%s)" % (op, pos, ty, p, "" if n is None else ",n=%d" % n, ia, sa[0], ib, sb[0])
                    if sa[0] == "fail" or sb[0] == "fail":
                        goal = (sa[0] == sb[0])
                        if op in ("mul", "checked_mul") and sa[0] == "fail" and sb[0] == "val":
                            # documented exception: only the Decimal/Decimal form short-cuts a factor equal to one
                            one_x = (T.I(xt) == 10 ** sp)
                            one_y = (T.I(yt) == 10 ** sq)
                            goal = z3.Or(one_x, one_y)
                    elif sa[0] == "bool":
                        goal = (T.B(sa[1]) == T.B(sb[1]))
                    elif sa[0] == "ord":
                        goal = (sa[1] == sb[1])
                    else:
                        ca, sca, cb, scb = sa[1], sa[2], sb[1], sb[2]
                        if not (is_conc(sca) and is_conc(scb)):
                            raise Unsupported("symbolic scale")
                        m = max(int(sca), int(scb))
                        goal = T.I(ca) * 10 ** (m - int(sca)) == T.I(cb) * 10 ** (m - int(scb))
                        if op in ("add", "sub", "checked_add", "checked_sub"):
                            goal = z3.And(goal, T.B(int(sca) == int(scb)))
                    r = res.vc(ctx, name, ob.state.pruned_constraints(goal), goal, {"x": xt, "y": yt},
                               {"kind": "diff", "op": op, "pos": pos, "ty": ty, "p": p, "n": n, "mode": mode})
                    if ia == 0 and ib == 0 and p in (0, 9):
                        res.sample({"vc": name, "status": r.status, "time_s": round(r.time, 4)})
    return res.done()


def run_case(ctx, case):
    if case.get("delegate"):
        return run_delegated(ctx, case)
    prog = ctx.program("dev")
    res = Res(case["id"])
    if case["kind"] == "wiring":
        return run_wiring(ctx, prog, res, case)
    if case["kind"] == "wiring_eq":
        # PartialEq<Decimal> for $t forwards to PartialEq<$t> for Decimal with swapped operands
        n = 0
        for ty in INT9:
            f = get_fn(prog, "eq", ["&" + ty, "&Decimal"], "bool")
            st = State()
            i = sym_int("i", ty, st)
            d = sym_decimal("d", st, 5)
            calls = []
            tok = z3.Bool("tok_b")

            def c_eq(ex, st_, fr, callee, a, calls=calls):
                calls.append([ex.read_ref(st_, x) for x in a])
                return tok
            ex = new_executor(ctx, prog, contracts={"eq": c_eq})
            outs = ex.explore(start_state(f, [ref_to(i), ref_to(d)], None, st))
            res.absorb(ex, outs)
            ok = len(outs) == 1 and outs[0].kind == "return" and len(calls) == 1 and _same_val(calls[0][0], d) and _same_val(calls[0][1], i) \
                and _same_val(outs[0].value, tok)
            res.d["vcs"] += 1
            res.d["distinct"].append("wiring|eq|%s==Decimal" % ty)
            if ok:
                res.d["discharged"] += 1
            else:
                res.d["violations"].append({"vc": "wiring|eq|%s" % ty, "inputs": {}, "info": {"kind": "wiring", "fn": f.name, "op": "eq"}})
        return res.done()
    return run_diff(ctx, prog, res, case)


NATIVE = {"add": "add", "sub": "sub", "mul": "mul", "div": "div", "rem": "rem", "checked_add": "cadd", "checked_sub": "csub", "checked_mul": "cmul",
          "checked_div": "cdiv", "checked_rem": "crem", "div_rounded": "drnd", "eq": "eq", "partial_cmp": "pcmp"}


def replay(ctx, native, v):
    if v.get("info", {}).get("delegate"):
        return replay_delegated(ctx, native, v)
    info = v["info"]
    nat = native["dev"]
    if info["kind"] == "wiring":
        return {"reproduced": True, "line": "(structural) " + info["fn"], "observed": "forwarding impl does not call the by-value impl once with its dereferenced operands",
                "expected": "exactly one call, result passed through"}
    op, pos, ty, p, n, mode = info["op"], info["pos"], info["ty"], info["p"], info["n"], info["mode"]
    x, y = v["inputs"]["x"], v["inputs"]["y"]
    if pos == "di":
        li, ri, ld, rd = fmt_dec(x, p), "%s:%d" % (ty, y), fmt_dec(x, p), fmt_dec(y, 0)
    elif pos == "id":
        li, ri, ld, rd = "%s:%d" % (ty, x), fmt_dec(y, p), fmt_dec(x, 0), fmt_dec(y, p)
    else:
        li, ri, ld, rd = "%s:%d" % (ty, x), "%s:%d" % (ty, y), fmt_dec(x, 0), fmt_dec(y, 0)
    tail = " %d" % n if n is not None else ""
    l1 = "%d bin %s vv %s %s%s" % (mode, NATIVE[op], li, ri, tail)
    l2 = "%d bin %s vv %s %s%s" % (mode, NATIVE[op], ld, rd, tail)
    o1, o2 = parse_native(nat.ask(l1)), parse_native(nat.ask(l2))

    def norm(o):
        if o[0] in ("PANIC", "NONE"):
            return ("fail",)
        if o[0] == "OK" and op not in ("add", "sub", "checked_add", "checked_sub"):
            c, s = o[1], o[2]
            while s > 0 and c % 10 == 0:
                c //= 10
                s -= 1
            return ("OK", c, s) if c != 0 else ("OK", 0, 0)
        return o
    same = norm(o1) == norm(o2)
    if op in ("mul", "checked_mul") and norm(o1) == ("fail",) and o2[0] == "OK" and (x == 10 ** (p if pos == "di" else 0) or y == 10 ** (p if pos == "id" else 0)):
        same = True
    return {"reproduced": not same, "line": l1 + "  ||  " + l2, "observed": [o1, o2], "expected": "same outcome", "profile": "dev"}


def confirm_known(ctx, native, ent):
    w = ent.get("witness")
    return bool(w) and native["dev"].ask(w["line"]) == w["observed"]
