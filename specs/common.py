"""Shared helpers for the per-property specs."""
import time
import z3
from mir2smt import terms as T
from mir2smt.exec import (Executor, State, Frame, IV, Agg, EnumV, RefV, Outcome, Unsupported, UNIT,
                          Program, _Holder, FV, StrV, OvfT, Opaque, SliceV)
from mir2smt.vc import (sym_int, decimal, sym_decimal, ref_to, start_state, check_vc, model_int,
                        rnd_rel, rnd_conc, MODES, MAXC, smtlib, check_vc_portfolio)
from mir2smt import builtins as BI
from mir2smt.terms import ty_range, INT_TYPES, is_conc

INT9 = ["u8", "i8", "u16", "i16", "u32", "i32", "u64", "i64", "i128"]
I128_MIN = -(1 << 127)
I128_MAX = (1 << 127) - 1


def get_fn(prog, last, params, ret=None, src=None, crate=None):
    c = prog.fn_by_sig(last, params, ret, src, crate)
    if len(c) != 1:
        raise Unsupported("function %s%s -> %s: %d candidates %s" % (last, params, ret, len(c), [f.name for f in c]))
    return c[0]


def mode_contract(mode):
    def c(ex, st, fr, callee, args):
        if "RoundingMode" in callee and callee.endswith("::default"):
            BI._use("RoundingMode::default() = the thread's current mode (environment input; C19 checks the thread-local)")
            return EnumV("RoundingMode", mode)
        return NotImplemented
    return c


def new_executor(ctx, prog, mode=None, contracts=None, merge_fns=(), unwind=40):
    ex = Executor(prog, unwind=unwind, merge_fns=merge_fns)
    # the branch-free log10 is bit-level code: it is proved once, bit-precisely, by the Kani harness i128_magnitude_all (C15)
    # and used through its contract everywhere else
    from . import kernels as _K
    ex.contracts["i128_magnitude"] = _K.c_magnitude
    if mode is not None:
        ex.contracts["default"] = mode_contract(mode)
    if contracts:
        ex.contracts.update(contracts)
    return ex


class NativeViolation(Exception):
    """raised by a spec's co-simulation when the NATIVE build itself contradicts the property's oracle on a concrete input (as opposed
    to the interpreter disagreeing with the native build, which is a translator problem and ends inconclusive)"""

    def __init__(self, line, observed, expected, profile="dev"):
        Exception.__init__(self, "native build contradicts the oracle: %s -> %r, expected %r" % (line, observed, expected))
        self.replay = {"reproduced": True, "line": line, "observed": observed, "expected": expected, "profile": profile}


class Res:
    """accumulates the result of one case"""

    current = None     # the Res of the case being run in this worker (lets the runner keep partial results when a case is cut short)

    def __init__(self, case_id):
        Res.current = self
        self.d = {"case": case_id, "vcs": 0, "discharged": 0, "paths": 0, "violations": [], "inconclusive": [],
                  "samples": [], "distinct": [], "fns": set(), "models": set(), "solver_time": 0.0, "stats": {}}

    def vc(self, ctx, name, constraints, goal, inputs, info=None, timeout_ms=None, portfolio=None, prefer=None):
        """discharge one VC; on sat record a violation with concrete inputs"""
        d = self.d
        d["vcs"] += 1
        if portfolio and not isinstance(goal, bool):
            r = check_vc_portfolio(constraints, goal, timeout_ms or ctx.timeout_ms, name, seeds=portfolio)
            if r.status == "sat":
                t_sat = r.time
                r = check_vc(constraints, goal, timeout_ms or ctx.timeout_ms, name)   # for the model
                r.time += t_sat
            d.setdefault("portfolio", []).append({"vc": name, "status": r.status, "time_s": round(r.time, 1), "seeds": list(portfolio)})
        else:
            r = check_vc(constraints, goal, timeout_ms or ctx.timeout_ms, name)
        d["solver_time"] += r.time
        if not isinstance(goal, bool):
            d["distinct"].append(name)
        if r.status == "unsat":
            d["discharged"] += 1
            if not isinstance(goal, bool):
                self.cross(ctx, name, constraints, goal)
        elif r.status == "sat":
            if prefer is not None:
                # counterexample selection only: first ask for a model inside the region that the public API can reach / that
                # replays (e.g. outputs a callee really produces); any model is a counterexample of the same VC
                r2 = check_vc(list(constraints) + list(prefer), goal, timeout_ms or ctx.timeout_ms, name)
                d["solver_time"] += r2.time
                if r2.status == "sat":
                    r = r2
            vals = {}
            for k, t in inputs.items():
                try:
                    vals[k] = model_int(r.model, t)
                except Exception:
                    vals[k] = str(t)
            d["violations"].append({"vc": name, "inputs": vals, "info": info or {}})
        else:
            d["inconclusive"].append("solver unknown/timeout on VC %s (%.1fs)" % (name, r.time))
        return r

    def cross(self, ctx, name, constraints, goal):
        """second-solver pass: a deterministic sample of the VCs z3 5.x (API) decided unsat is dumped as SMT-LIB2 and re-decided by
        cvc5 and by the system z3 4.8 binary; 'sat' from either is a disagreement (inconclusive, never silently ignored);
        unknown/timeout/(error is counted but proves nothing either way"""
        import os, zlib, subprocess
        n = int(os.environ.get("VERIF_CROSS", "12" if ctx.tier == "thorough" else "60"))
        if n <= 0 or zlib.crc32(name.encode()) % n != 0:
            return
        st = self.d["stats"]
        st["cross_sampled"] = st.get("cross_sampled", 0) + 1
        d = os.path.join("/verif/build/smt", ctx.pid)
        os.makedirs(d, exist_ok=True)
        path = os.path.join(d, "x%08x-%d.smt2" % (zlib.crc32(name.encode()), os.getpid()))
        with open(path, "w") as f:
            f.write(smtlib(constraints, goal) + "\n")   # Solver.to_smt2 ends with (check-sat)
        keep = False
        for tag, cmd in (("cvc5", ["cvc5", "--lang", "smt2", "--tlimit=4000", path]), ("z3old", ["/usr/bin/z3", "-T:4", path])):
            try:
                out = subprocess.run(cmd, capture_output=True, text=True, timeout=10).stdout
            except Exception:
                out = "timeout"
            lines = [l.strip() for l in out.splitlines() if l.strip()]
            if any(l.startswith("(error") for l in lines):
                verdict = "error"
            elif "unsat" in lines:
                verdict = "unsat"
            elif "sat" in lines:
                verdict = "sat"
            else:
                verdict = "unknown"
            st["cross_%s_%s" % (tag, verdict)] = st.get("cross_%s_%s" % (tag, verdict), 0) + 1
            if verdict == "sat":
                keep = True
                self.d["inconclusive"].append("solver disagreement on VC %s: z3 %s says unsat, %s says sat (%s)" % (name, z3.get_version_string(), tag, path))
        if not keep:
            try:
                os.remove(path)
            except OSError:
                pass

    def witness(self, ctx, name, constraints, assignment):
        """reachability witness: the constraints must be satisfiable for the given concrete inputs"""
        s = z3.Solver()
        s.set("timeout", 20000)
        for c in constraints:
            s.add(c)
        for t, v in assignment:
            s.add(t == v)
        r = s.check()
        self.d.setdefault("witnesses", 0)
        if r == z3.sat:
            self.d["witnesses"] += 1
            return True
        self.d["inconclusive"].append("reachability witness for %s is %s (vacuous or over-constrained encoding?)" % (name, r))
        return False

    def sample(self, s):
        if len(self.d["samples"]) < 3:
            self.d["samples"].append(s)

    def absorb(self, ex, outs):
        self.d["paths"] += len(outs)
        self.d["fns"].update(ex.encoded_fns)
        for k, v in ex.stats.items():
            if isinstance(v, (int, float)):
                self.d["stats"][k] = self.d["stats"].get(k, 0) + v

    def done(self):
        d = self.d
        if isinstance(d["fns"], list):
            return d
        d["fns"] = sorted(d["fns"])
        d["models"] = sorted(BI.USED)
        return d


def is_overflow_panic(o):
    return o.kind == "panic" and BI.classify_panic(o.msg) == "overflow"


def panic_class(o):
    return BI.classify_panic(o.msg) if o.kind == "panic" else None


def dec_fields(v):
    """(coeff term, scale term) of a Decimal value"""
    return v.fields[0].t, v.fields[1].t


def int_arg(name, ty, st, restrict_i128=False):
    if ty == "i128" and restrict_i128:
        return sym_int(name, ty, st, lo=-MAXC)
    return sym_int(name, ty, st)


def fmt_dec(c, p):
    return "d:%d:%d" % (c, p)


def parse_native(s):
    """parse a replay-driver output line into a tuple"""
    parts = s.split(" ", 1)
    k = parts[0]
    rest = parts[1] if len(parts) > 1 else ""
    if k == "OK":
        a, b = rest.split()
        return ("OK", int(a), int(b))
    if k in ("INT",):
        return ("INT", int(rest))
    if k == "PAIR":
        a, b = rest.split()
        return ("PAIR", int(a), int(b))
    if k == "BITS":
        return ("BITS", int(rest))
    if k == "BOOL":
        return ("BOOL", rest == "true")
    if k in ("NONE",):
        return ("NONE",)
    if k == "PANIC":
        return ("PANIC", rest)
    if k == "ERR":
        return ("ERR", rest)
    if k == "ORD":
        return ("ORD", rest)
    if k == "STR":
        return ("STR", rest)
    return (k, rest)


def scale_pairs(ctx, n_quick=40):
    """(p, q) pairs: all 361 in thorough; boundary + seeded subset in quick"""
    allp = [(p, q) for p in range(19) for q in range(19)]
    if ctx.tier == "thorough":
        return allp
    must = {(0, 0), (0, 18), (18, 0), (18, 18), (0, 1), (1, 0), (9, 9), (17, 18), (18, 17), (1, 18), (18, 1), (9, 10), (10, 9)}
    rest = [x for x in allp if x not in must]
    ctx.rng.shuffle(rest)
    return sorted(must | set(rest[:n_quick]))


# ---- obligations of a contract owned by another check, carried along by every check that uses the contract -----------------------------
def delegated_cases(owner, cases):
    return [dict(c, id="oblig:%s|%s" % (owner, c["id"]), delegate=owner, orig_id=c["id"]) for c in cases]


def rounding_kernel_obligations(ctx):
    """i128_div_rounded against the declarative rounding relation, all 8 modes, symbolic divisor, explicit and thread-default mode (the
    kernel cases of C05): every check that replaces the kernel by its contract discharges them itself, so that a change inside the
    kernel is reported by the check of the property it breaks and not only by C05"""
    import importlib
    c05 = importlib.import_module("specs.C05")
    return delegated_cases("C05", [c for c in c05.cases(ctx) if c.get("kind") == "kernel"])


def run_delegated(ctx, case):
    import importlib
    mod = importlib.import_module("specs." + case["delegate"])
    c = dict(case)
    c["id"] = case["orig_id"]
    r = mod.run_case(ctx, c)
    r["case"] = case["id"]
    for v in r.get("violations", []):
        v.setdefault("info", {})
        v["info"]["delegate"] = case["delegate"]
        v["info"]["orig_case"] = case["orig_id"]
    return r


def replay_delegated(ctx, native, v):
    import importlib
    mod = importlib.import_module("specs." + v["info"]["delegate"])
    return mod.replay(ctx, native, dict(v, case=v["info"]["orig_case"]))
