"""C06 -- parsing accepts exactly the literal grammar and never yields a wrong value."""
from .common import *
from . import kernels as K

ID = "C06"
META = {
    "bounds": "Kani (bit-precise, real fpdec_core::str_to_dec incl. its unsafe block, literal level: coefficient and exponent): every valid-UTF-8 byte string of "
              "length <= 5 (quick) / <= 8 (thorough) and exponent shapes of length 13, 14 and 16 (thorough); all-ASCII strings of length 9 and more "
              "did not finish within 5000 s per harness and are outside both tiers, against an independent reference recogniser/evaluator; SWAR helpers for all u64; "
              "mir2smt: Decimal::from_str's exponent folding for every (coefficient, exponent) pair. "
              "mir2smt (slice model, digits symbolic, structure enumerated): canonical shapes [-]a digits[.b digits] with a 1..=39, b 0..=18; mantissas of 30..=41 "
              "digits at every dot position with leading zeros; over-long mantissas of 42..=48 (quick) / 42..=80 (thorough) digits; mantissas with exponents "
              "(values -40..=40, up to 3 leading zeros)",
    "outside_claim": ["strings longer than the stated lengths outside the stated shapes", "which ParseDecimalError kind is returned (only Empty is pinned by the property)",
                      "opt-level / LLVM"],
    "assumptions": ["builtin models listed in coverage.builtin_models (byte-slice model: first/len/get_unchecked/read_unaligned with explicit bounds assertions)",
                    "contracts chunk_contains_8_digits / chunk_to_u64 (obligation: the two Kani SWAR harnesses of this check)", "CBMC/Kani semantics for the harnesses"],
}
KANI_QUICK = ["chunk_contains_8_digits_all", "chunk_to_u64_all"] + ["all_strings_len%d" % n for n in range(0, 6)]
# measured (CBMC 6.11, cadical, one core each): len6 126 s, len7 358 s, len8 975 s, exponent 13 / 14 / 16: 212 / 233 / 1508 s.  The all-ASCII harnesses of
# length 9 and 10 did not finish within 8000 s / 5000 s and are therefore not part of any tier (they stay in the harness crate for manual runs).
KANI_THOROUGH = KANI_QUICK + ["all_strings_len6", "all_strings_len7", "all_strings_len8", "exponent_strings_len13", "exponent_strings_len14", "exponent_strings_len16"]
EXPS = ["", "e0", "e5", "E-3", "e+12", "e-18", "e-19", "e38", "e39", "e-40", "E40", "e005", "e-0018"]


def configs(ctx):
    return [("dev", ["core", "main"])]


def shapes(ctx):
    """(sign, leading zeros, a, has dot, b, exponent text)"""
    out = []
    thorough = ctx.tier == "thorough"
    # canonical shapes (what Display/ToString emits): no leading zeros except a single 0 before the point
    for sign in ("", "-"):
        for a in range(1, 40):
            for b in range(0, 19):
                if thorough or (a in (1, 2, 8, 9, 16, 17, 20, 21, 38, 39) and b in (0, 1, 7, 8, 9, 17, 18)) or (a + b) % 11 == 0:
                    out.append((sign, 0, a, b > 0, b, ""))
        for b in range(1, 19):
            if thorough or b in (1, 8, 9, 18):
                out.append((sign, 1, 0, True, b, ""))
    # long mantissas around 10^38, 2^127, 2^128 ...: every dot position
    for n in range(30, 42):
        for b in range(0, min(n, 21) + 1):
            a = n - b
            if not thorough and not (n in (38, 39, 40) or b in (0, 18, 19)):
                continue
            for sign, z in (("", 0), ("-", 2), ("+", 0)):
                if not thorough and (sign, z) != ("", 0) and n not in (39, 40):
                    continue
                out.append((sign, z, a, b > 0 or (n % 2 == 0), b, ""))
    # over-long mantissas: must be rejected
    for n in (range(42, 81) if thorough else range(42, 49)):
        for b in (0, 1, 18, n // 2, n):
            if b <= n:
                out.append(("", 0, n - b, b > 0, b, ""))
    # exponents
    for (a, b) in ((1, 0), (1, 1), (8, 0), (9, 2), (17, 18), (20, 0), (38, 0), (39, 0), (0, 3), (0, 18), (21, 17)):
        for e in EXPS[1:]:
            for sign, z in (("", 0), ("-", 1)):
                if not thorough and (sign, z) != ("", 0) and e not in ("e5", "E-3"):
                    continue
                out.append((sign, z, a, b > 0, b, e))
    # zero mantissas
    for e in EXPS:
        for zs in ("0", "00", "0.", "0.0", "0.000", ".0", "000.00"):
            out.append(("lit", zs + e))
    seen, res = set(), []
    for s_ in out:
        if s_ not in seen:
            seen.add(s_)
            res.append(s_)
    return res


def cases(ctx):
    out = []
    for h in (KANI_THOROUGH if ctx.tier == "thorough" else KANI_QUICK):
        out.append({"id": "kani|%s" % h, "kind": "kani", "harness": h, "weight": 1000})
    out.append({"id": "fold|from_str folds every (coefficient, exponent) pair correctly", "kind": "fold", "weight": 30})
    out.append({"id": "wiring|TryFrom<&str> and TryFrom<String> hand their argument to from_str", "kind": "wiring", "weight": 2})
    sh = shapes(ctx)
    for i in range(0, len(sh), 25):
        out.append({"id": "shapes|%d" % i, "kind": "shapes", "shapes": sh[i:i + 25], "weight": 20})
    return out


def build_literal(st, shape, tag):
    """returns (SliceV, digit terms of the significant part, concrete prefix info)"""
    if shape[0] == "lit":
        data = tuple(IV(x, "u8") for x in shape[1].encode())
        return SliceV(data, 0, len(data)), None
    sign, z, a, dot, b, e = shape
    bs = [IV(ord(c), "u8") for c in sign]
    bs += [IV(48, "u8")] * z
    digs = []
    for i in range(a):
        lo = 1 if i == 0 else 0
        d = sym_int("%s_i%d" % (tag, i), "u8", st, lo=lo, hi=9)
        digs.append(d.t)
        bs.append(IV(d.t + 48, "u8"))
    if dot:
        bs.append(IV(46, "u8"))
    for i in range(b):
        d = sym_int("%s_f%d" % (tag, i), "u8", st, lo=0, hi=9)
        digs.append(d.t)
        bs.append(IV(d.t + 48, "u8"))
    bs += [IV(ord(c), "u8") for c in e]
    return SliceV(tuple(bs), 0, len(bs)), digs


def expected_conc(text):
    """reference evaluation of a concrete literal (Python, exact): ('OK', c, p) or ('ERR',)"""
    import re
    m = re.fullmatch(r"([+-]?)(?:(\d+)(?:\.(\d*))?|\.(\d+))(?:[eE]([+-]?\d+))?", text)
    if not m:
        return ("ERR",)
    sign, ip, fp, fonly, ex = m.groups()
    ip = ip or ""
    fp = fp if fonly is None else fonly
    fp = fp or ""
    E = int(ex) if ex else 0
    mant = int((ip + fp) or "0")
    scale = len(fp) - E
    if scale > 18:
        return ("ERR",)
    if scale >= 0:
        c = mant
        p = scale
    elif mant == 0:
        c, p = 0, 0
    elif -scale > 60:
        return ("ERR",)
    else:
        c = mant * 10 ** (-scale)
        p = 0
    if c > I128_MAX:
        return ("ERR",)
    return ("OK", -c if sign == "-" else c, p if True else 0)


def run_case(ctx, case):
    res = Res(case["id"])
    if case["kind"] == "kani":
        from vfw import kani, build
        build.ENV["RUSTFLAGS"] = "--cfg fpdec_verif"
        h = case["harness"]
        r = kani.run_harness(h, timeout_s=7200 if ctx.tier == "thorough" else 1500, playback=True, mem_gb=20)
        res.d["vcs"] += 1
        res.d["distinct"].append(case["id"])
        res.sample({"kani": h, "status": r["status"], "time_s": r["time_s"], "covers": r["covers"], "sat_vars": r.get("sat_vars"), "sat_clauses": r.get("sat_clauses")})
        if r["status"] == "success":
            res.d["discharged"] += 1
            res.d["distinct"].append(case["id"] + "|covers")
        elif r["status"] == "failed" and r["playback"] and not r.get("unwinding_failed"):
            data = bytes(r["playback"][0]) if r["playback"] else b""
            res.d["violations"].append({"vc": case["id"], "inputs": {}, "info": {"kind": "kani", "bytes": data.hex(), "checks": r["failed_checks"][:3]}})
        else:
            res.d["inconclusive"].append("kani harness %s: %s %s (log %s)" % (h, r["status"], r.get("failed_checks"), r["log"]))
        return res.done()
    prog = ctx.program("dev")
    f = get_fn(prog, "from_str", ["&str"], "Result<Decimal, ParseDecimalError>")
    if case["kind"] == "fold":
        return run_fold(ctx, prog, res, f)
    if case["kind"] == "wiring":
        # TryFrom<&str> / TryFrom<String>: the result is from_str's result on the very same string (from_str uninterpreted here; it is the
        # subject of every other case of this check)
        for pty in ("&str", "String"):
            tf = get_fn(prog, "try_from", [pty], "Result<Decimal, ParseDecimalError>")
            lit = StrV("<symbolic literal>")
            token = Opaque("from_str-result")
            calls = []

            def c_from_str(ex, st_, fr, callee, args, calls=calls, token=token):
                if "FromStr" not in callee and not callee.endswith("Decimal::from_str"):
                    return NotImplemented
                calls.append(BI._deref_all(ex, st_, args[0]))
                return token
            ex = new_executor(ctx, prog, contracts={"from_str": c_from_str})
            outs = ex.explore(start_state(tf, [lit]))
            res.absorb(ex, outs)
            res.d["vcs"] += 1
            res.d["distinct"] += ["wiring|try_from(%s)" % pty, "wiring|try_from(%s)|arg" % pty]
            if len(outs) == 1 and outs[0].kind == "return" and outs[0].value is token and len(calls) == 1 and calls[0] is lit:
                res.d["discharged"] += 1
            else:
                res.d["violations"].append({"vc": "wiring|try_from(%s)" % pty, "inputs": {}, "info": {"kind": "wiring", "pty": pty}})
        return res.done()
    for si, shape in enumerate(case["shapes"]):
        st = State()
        lit, digs = build_literal(st, shape, "d")
        ex = new_executor(ctx, prog, contracts=K.PARSER_CONTRACTS, unwind=120)
        outs = ex.explore(start_state(f, [lit], None, st))
        res.absorb(ex, outs)
        if shape[0] == "lit":
            want = expected_conc(shape[1])
            for i, o in enumerate(outs):
                ok = False
                if o.kind == "return":
                    v = o.value
                    if v.variant == 0:
                        c, p = dec_fields(v.fields[0])
                        ok = want[0] == "OK" and is_conc(c) and int(c) == want[1] and int(p) == want[2]
                    else:
                        ok = want[0] == "ERR"
                res.d["vcs"] += 1
                res.d["distinct"].append("lit|" + shape[1])
                if ok:
                    res.d["discharged"] += 1
                else:
                    res.d["violations"].append({"vc": "lit|" + shape[1], "inputs": {}, "info": {"kind": "lit", "text": shape[1]}})
            continue
        sign, z, a, dot, b, e = shape
        E = int(e[1:]) if e else 0
        V = 0
        for dterm in digs:
            V = V * 10 + dterm
        V = T.I(V)
        scale = b - E
        sg = -1 if sign == "-" else 1
        if scale > 18:
            okc, wc, wp = False, None, None
        elif scale >= 0:
            okc, wc, wp = V <= I128_MAX, sg * V, scale
        else:
            okc, wc, wp = z3.Or(V == 0, V * 10 ** min(-scale, 60) <= I128_MAX), sg * V * 10 ** min(-scale, 60), 0
        info = {"kind": "shape", "shape": list(shape)}
        inputs = {"dig%d" % k: dterm for k, dterm in enumerate(digs)}
        for i, o in enumerate(outs):
            name = "shape|%s|z=%d,a=%d,b=%d,%s|path%d:%s" % (sign or "_", z, a, b, e or "-", i, o.kind if o.kind == "return" else panic_class(o))
            if o.kind != "return":
                goal = False       # the parser must not panic (incl. the slice-model bounds assertions)
            elif o.value.variant == 0:
                c, p = dec_fields(o.value.fields[0])
                goal = False if okc is False else z3.And(okc, T.I(c) == z3.If(V == 0, 0, wc), T.B(T.eq(p, wp)) if True else True)
                if scale < 0 and okc is not False:
                    goal = z3.And(okc, T.I(c) == z3.If(V == 0, 0, wc), T.B(T.eq(p, 0)))
            else:
                goal = True if okc is False else z3.Not(okc)
            r = res.vc(ctx, name, o.state.pruned_constraints(goal), goal, inputs, info)
            if si == 0 and i == 0:
                res.sample({"vc": name, "status": r.status, "time_s": round(r.time, 4)})
    return res.done()


def run_fold(ctx, prog, res, f):
    """Decimal::from_str on top of an arbitrary str_to_dec result (c, e): together with the literal-level Kani harnesses
    (str_to_dec returns exactly (digits, exponent - fraction length)) this gives the end-to-end statement for all strings in Kani's bounds"""
    from mir2smt.exec import _Alts
    st = State()
    c = sym_int("c", "i128", st, lo=-MAXC)
    e = sym_int("e", "isize", st, lo=-(1 << 41), hi=1 << 41)

    def s2d(ex, st_, fr, callee, args):
        BI._use("CONTRACT str_to_dec = arbitrary Ok((c, e)) / Err(kind) (literal level: Kani harnesses)")
        alts = [(True, EnumV("Result", 0, (Agg("tuple", (IV(c.t, "i128"), IV(e.t, "isize"))),)))]
        for k in range(4):
            alts.append((True, EnumV("Result", 1, (EnumV("ParseDecimalError", k),)), (lambda s2, k=k: s2.tags.__setitem__("s2d_err", k))))
        return _Alts(alts)
    ex = new_executor(ctx, prog, contracts={"str_to_dec": s2d})
    outs = ex.explore(start_state(f, [Opaque("str", "src")], None, st))
    res.absorb(ex, outs)
    for i, o in enumerate(outs):
        name = "fold|path%d:%s" % (i, o.kind)
        errk = o.state.tags.get("s2d_err")
        if o.kind != "return":
            goal = False
        elif errk is not None:
            goal = T.B(o.value.variant == 1 and o.value.fields[0].variant == errk)
        else:
            # value c * 10^e: Ok((c, -e)) for -18 <= e < 0; Ok((c*10^e, 0)) for 0 <= e <= 38 if it fits; Err otherwise
            E = e.t
            if o.value.variant == 0:
                rc, rp = dec_fields(o.value.fields[0])
                pw = T.fresh_int("pw")
                tbl = z3.Or(*[z3.And(E == k, pw == 10 ** k) for k in range(0, 39)])
                goal = z3.If(E < 0, z3.And(E >= -18, T.I(rc) == c.t, T.I(rp) == -E),
                             z3.And(E <= 38, T.I(rp) == 0, z3.Exists([pw], z3.And(tbl, T.I(rc) == c.t * pw)), T.I(rc) <= I128_MAX, T.I(rc) >= -I128_MAX))
            else:
                pw = T.fresh_int("pw")
                tbl = z3.Or(*[z3.And(E == k, pw == 10 ** k) for k in range(0, 39)])
                fits = z3.Exists([pw], z3.And(tbl, c.t * pw <= I128_MAX, c.t * pw >= -I128_MAX))
                goal = z3.Or(E < -18, E > 38, z3.And(E >= 0, z3.Not(fits)))
        # str_to_dec never returns a zero coefficient with a positive exponent (it normalises "0e5" to (0, 0)); a counterexample there
        # cannot be written as a literal, so models with c != 0 are asked for first
        r = res.vc(ctx, name, o.state.constraints(), goal, {"c": c.t, "e": e.t}, {"kind": "fold"}, prefer=[c.t != 0])
        res.sample({"vc": name, "status": r.status, "time_s": round(r.time, 3)})
    return res.done()


def text_of(info, inputs):
    if info["kind"] == "lit":
        return info["text"]
    sign, z, a, dot, b, e = info["shape"]
    ds = "".join(str(inputs["dig%d" % k]) for k in range(a + b))
    return sign + "0" * z + ds[:a] + ("." if dot else "") + ds[a:] + e


def replay(ctx, native, v):
    info = v["info"]
    if info["kind"] == "wiring":
        bad = []
        for text in ["-17.5", "1e3", "0.000", "abc", "1e+", ".5", "340282366920938463463374607431768211456", "+0012.50e-3"]:
            h = text.encode().hex()
            a = native["dev"].ask("5 %s %s" % ("try_from_str" if info["pty"] == "&str" else "try_from_string", h))
            b = native["dev"].ask("5 from_str %s" % h)
            if a != b:
                bad.append((text, a, b))
        return {"reproduced": bool(bad), "line": "5 try_from_str|try_from_string <hex>", "observed": bad[:3], "expected": "the result of from_str on the same text", "profile": "dev"}
    if info["kind"] == "fold":
        c, e = v["inputs"]["c"], v["inputs"]["e"]
        if abs(e) > 60:
            text = "%de%d" % (c, e)
        elif e >= 0:
            text = "%de%d" % (c, e)
        else:
            text = "%de%d" % (c, e)
    elif info["kind"] == "kani":
        data = bytes.fromhex(info["bytes"])
        try:
            text = data.decode("utf-8")
        except UnicodeDecodeError:
            return {"reproduced": False, "line": "", "observed": "not UTF-8", "expected": ""}
    else:
        text = text_of(info, v["inputs"])
    line = "5 from_str %s" % text.encode().hex()
    obs = parse_native(native["dev"].ask(line))
    exp = expected_conc(text)
    o2 = obs if obs[0] == "OK" else ("ERR",)
    if text == "" and obs != ("ERR", "Empty"):
        o2 = ("WRONG-EMPTY",)
    if obs[0] == "ERR" and obs[1] == "Empty" and text != "":
        o2 = ("WRONG-EMPTY",)
    return {"reproduced": o2 != exp, "line": line, "text": text, "observed": obs, "expected": exp, "profile": "dev"}


def confirm_known(ctx, native, ent):
    w = ent.get("witness")
    return bool(w) and native["dev"].ask(w["line"]) == w["observed"]


def cosim(ctx, native):
    import random
    rng = random.Random(ctx.seed + 606)
    prog = ctx.program("dev")
    f = get_fn(prog, "from_str", ["&str"], "Result<Decimal, ParseDecimalError>")
    n = 0
    alphabet = "0123456789" * 3 + "+-..eE" + " x"
    fixed = ["", "0", "-17.5", "+.75", "17e-5", "700004.002E13", "0e5", "1e+", "1e005", "0.", ".", "e5", "1e", "1e-", "--1", "1.2.3", "0e99", "0.0e99",
             "170141183460469231731687303715884105727", "170141183460469231731687303715884105728", "440282366920938463463374607431768211456",
             "800000000000000000000000000000000000099", "1e38", "1e39", "0.0000000000000000001", "12345678.12345678e-10", "+00012.50"]
    for k in range(260):
        if k < len(fixed):
            s = fixed[k]
        else:
            s = "".join(rng.choice(alphabet) for _ in range(rng.randint(1, 24)))
        data = tuple(IV(b, "u8") for b in s.encode())
        ex = new_executor(ctx, prog, contracts=K.PARSER_CONTRACTS, unwind=120)
        outs = ex.explore(start_state(f, [SliceV(data, 0, len(data))]))
        assert len(outs) == 1, (s, outs)
        o = outs[0]
        if o.kind != "return":
            mine = ("PANIC",)
        elif o.value.variant == 0:
            mine = ("OK", int(o.value.fields[0].fields[0].t), int(o.value.fields[0].fields[1].t))
        else:
            mine = ("ERR", prog.enums["ParseDecimalError"][o.value.fields[0].variant])
        obs = parse_native(native["dev"].ask("5 from_str %s" % s.encode().hex()))
        if obs != mine:
            raise RuntimeError("MIR interpreter %r vs native %r on %r" % (mine, obs, s))
        exp = expected_conc(s)
        if (obs if obs[0] == "OK" else ("ERR",)) != exp:
            raise NativeViolation("5 from_str %s" % s.encode().hex(), obs, exp)
        n += 1
    return n
