"""Check runner: builds, runs the cases of a property spec in parallel, replays
counterexamples natively, applies known findings, writes evidence, sets the
exit code (0 held / 1 VIOLATION / 2 inconclusive)."""
import importlib
import json
import multiprocessing as mp
import os
import random
import sys
import time
import traceback

from . import build

VERIF = build.VERIF
_PROG_CACHE = {}


def load_known():
    p = os.path.join(VERIF, "known_findings.json")
    if not os.path.exists(p):
        return []
    return json.load(open(p))


class Ctx:
    def __init__(self, pid, tier, seed):
        self.pid = pid
        self.tier = tier
        self.seed = seed
        self.rng = random.Random(seed)
        self.mir = {}          # (cfg, crate) -> path
        self.known = {}        # finding id -> entry (for this property)
        self.active_regions = set()
        self.timeout_ms = 20000 if tier == "quick" else 180000
        self.logs = []

    def log(self, msg):
        self.logs.append(msg)
        sys.stderr.write("[%s] %s\n" % (self.pid, msg))
        sys.stderr.flush()

    def program(self, cfg="dev", crates=("core", "main")):
        from mir2smt.exec import Program
        if cfg == "dev" and getattr(self, "cfg_override", None):
            cfg = self.cfg_override        # C20: run another property's spec on a different compilation of the same source
        key = (cfg, tuple(crates))
        if key not in _PROG_CACHE:
            files = [self.mir[(cfg, c)] for c in crates]
            ovf = build.CONFIGS[cfg][0] == "on"
            _PROG_CACHE[key] = Program(files, repo=build.REPO, overflow_checks=ovf)
            _PROG_CACHE[key].debug_assertions = build.CONFIGS[cfg][1] == "on"
        return _PROG_CACHE[key]


_W = {}


def _worker_init(pid, tier, seed, mir, active_regions, timeout_ms):
    sys.path.insert(0, VERIF)
    sys.setrecursionlimit(20000)
    ctx = Ctx(pid, tier, seed)
    ctx.mir = mir
    ctx.active_regions = set(active_regions)
    ctx.timeout_ms = timeout_ms
    _W["ctx"] = ctx
    _W["spec"] = importlib.import_module("specs." + pid)


class CaseBudget(BaseException):
    pass


def _worker_run(case):
    ctx = _W["ctx"]
    spec = _W["spec"]
    t0 = time.time()
    import signal
    budget = int(os.environ.get("VERIF_CASE_BUDGET", "5400" if ctx.tier == "thorough" else "600"))

    def _over(signum, frame):
        raise CaseBudget("case exceeded its CPU-time budget of %d s (VERIF_CASE_BUDGET)" % budget)
    # CPU time of this worker (ITIMER_PROF), not wall-clock: a loaded machine must not turn a passing check inconclusive
    old = signal.signal(signal.SIGPROF, _over)
    signal.setitimer(signal.ITIMER_PROF, budget)
    from specs import common as _C
    _C.Res.current = None
    try:
        from mir2smt import terms as _T
        _T._fresh[0] = 0          # deterministic symbol names per case
        r = spec.run_case(ctx, case)
    except (Exception, CaseBudget) as e:
        from mir2smt.exec import Unsupported
        from mir2smt.mirparse import MirSyntax
        kind = "unsupported" if isinstance(e, (Unsupported, MirSyntax)) else ("budget" if isinstance(e, CaseBudget) else "error")
        msg = "%s: %s: %s" % (kind, type(e).__name__, str(e)[:500])
        cur = _C.Res.current
        if cur is not None and cur.d.get("case") == case.get("id"):
            # keep what the case had established before it stopped (counterexamples found so far are still replayed)
            r = cur.done()
            r["inconclusive"].append(msg)
        else:
            r = {"case": case.get("id", str(case)), "vcs": 0, "discharged": 0, "violations": [], "inconclusive": [msg]}
        r["trace"] = traceback.format_exc()[-2000:]
    finally:
        signal.setitimer(signal.ITIMER_PROF, 0)
        signal.signal(signal.SIGPROF, old)
    r.setdefault("case", case.get("id", str(case)))
    r["wall"] = time.time() - t0
    return r


def main(argv=None):
    argv = argv or sys.argv[1:]
    if not argv:
        print("usage: check <ID> [--tier quick|thorough] | check replay <file>")
        return 2
    if argv[0] == "replay":
        return replay_file(argv[1])
    pid = argv[0]
    tier = os.environ.get("VERIF_TIER", "quick")
    jobs = int(os.environ.get("VERIF_JOBS", "16"))
    only = None
    i = 1
    while i < len(argv):
        if argv[i] == "--tier":
            tier = argv[i + 1]
            i += 2
        elif argv[i] == "--jobs":
            jobs = int(argv[i + 1])
            i += 2
        elif argv[i] == "--only":
            only = argv[i + 1]
            i += 2
        else:
            i += 1
    seed = int(os.environ.get("VERIF_SEED", "0"))
    return run_check(pid, tier, seed, jobs, only)


def run_check(pid, tier, seed, jobs=16, only=None):
    t_start = time.time()
    sys.path.insert(0, VERIF)
    sys.setrecursionlimit(20000)
    ctx = Ctx(pid, tier, seed)
    ev_path = os.path.join(os.environ.get("VERIF_EVIDENCE_DIR") or os.path.join(VERIF, "evidence"), pid + ".json")
    try:
        os.remove(ev_path)
    except OSError:
        pass
    try:
        spec = importlib.import_module("specs." + pid)
    except ModuleNotFoundError:
        print("INCONCLUSIVE property=%s reason=no spec module" % pid)
        return 2
    inconclusive = []
    try:
        # ---- build from the current working tree ----
        for cfg, crates in spec.configs(ctx):
            for c in crates:
                ctx.mir[(cfg, c)] = build.mir_dump(cfg, c, ctx.log)
        native = {}
        for prof in getattr(spec, "NATIVE_PROFILES", ["dev"]):
            native[prof] = build.Native(prof)
    except Exception as e:
        print("INCONCLUSIVE property=%s reason=build failed: %s" % (pid, e))
        write_evidence(ev_path, pid, tier, seed, spec, {}, [], ["build failed: %s" % e], [], 0, time.time() - t_start, ctx)
        return 2

    # ---- known findings: a region is only excluded while its witness reproduces ----
    known_lines = []
    for ent in load_known():
        if ent.get("property") != pid or "id" not in ent:
            continue
        ok = False
        try:
            ok = spec.confirm_known(ctx, native, ent)
        except Exception as e:
            ctx.log("known finding %s: confirm failed: %s" % (ent["id"], e))
        if ok:
            ctx.known[ent["id"]] = ent
            ctx.active_regions.add(ent["id"])
            known_lines.append("KNOWN-FINDING: property=%s %s: %s" % (pid, ent["id"], ent.get("what", ent.get("site", ""))))
        else:
            ctx.log("known finding %s no longer reproduces; its region is checked like everything else" % ent["id"])

    # ---- co-simulation (translator validation) ----
    cosim_violations = []
    cosim_n = 0
    try:
        if hasattr(spec, "cosim"):
            cosim_n = spec.cosim(ctx, native)
            ctx.log("co-simulation: %d vectors agree with the native build" % cosim_n)
    except Exception as e:
        if type(e).__name__ == "NativeViolation":
            # observed on the native build, against the property's oracle: a violation in its own right (already "replayed")
            cosim_violations.append({"vc": "co-simulation", "case": "co-simulation", "inputs": {}, "info": {}, "replay": e.replay})
        else:
            inconclusive.append("co-simulation: %s" % str(e)[:600])
        ctx.log("co-simulation FAILED: %s\n%s" % (e, traceback.format_exc()[-1500:]))

    # ---- run cases ----
    cases = spec.cases(ctx)
    if only:
        cases = [c for c in cases if only in c["id"]]
    ctx.log("%d cases, tier %s, seed %d" % (len(cases), tier, seed))
    results = []
    if jobs > 1 and len(cases) > 1:
        # long cases first
        cases_sorted = sorted(cases, key=lambda c: -c.get("weight", 1))
        with mp.get_context("fork").Pool(min(jobs, len(cases)), initializer=_worker_init,
                                         initargs=(pid, tier, seed, ctx.mir, sorted(ctx.active_regions), ctx.timeout_ms)) as pool:
            # whole-check wall budget (VERIF_CHECK_BUDGET; quick 1800 s, thorough 6 h): on a changed tree a check can become orders of
            # magnitude slower; when the budget is used up the cases still running or waiting are abandoned (reported as inconclusive),
            # what the finished cases found is replayed and reported as usual
            cbudget = int(os.environ.get("VERIF_CHECK_BUDGET", "21600" if tier == "thorough" else "1800"))
            it = pool.imap_unordered(_worker_run, cases_sorted, chunksize=1)
            done_ids = set()
            while len(results) < len(cases_sorted):
                left = cbudget - (time.time() - t_start)
                try:
                    r = it.next(timeout=max(left, 1))
                except mp.TimeoutError:
                    missing = [c["id"] for c in cases_sorted if c["id"] not in done_ids]
                    inconclusive.append("check budget of %d s used up: %d cases not finished (%s ...)" % (cbudget, len(missing), "; ".join(missing[:3])))
                    pool.terminate()
                    break
                except StopIteration:
                    break
                results.append(r)
                done_ids.add(r.get("case"))
    else:
        _worker_init(pid, tier, seed, ctx.mir, sorted(ctx.active_regions), ctx.timeout_ms)
        for c in cases:
            results.append(_worker_run(c))

    # ---- aggregate ----
    violations = []
    for r in results:
        for inc in r.get("inconclusive", []):
            inconclusive.append("%s: %s" % (r["case"], inc))
        for v in r.get("violations", []):
            v["case"] = r["case"]
            violations.append(v)

    try:
        os.makedirs(os.path.join(VERIF, "build"), exist_ok=True)
        with open(os.path.join(VERIF, "build", "last-%s%s-violations.json" % (pid, build.ALT)), "w") as f:
            json.dump(violations, f, indent=0, default=str)
    except Exception:
        pass
    # ---- replay counterexamples natively ----
    confirmed = list(cosim_violations)
    # fair order: the first 3 counterexamples of every case before the rest (a flood from one case must not starve the others)
    per_case = {}
    head, tail = [], []
    for v in violations:
        k = per_case.get(v.get("case"), 0)
        per_case[v.get("case")] = k + 1
        (head if k < 3 else tail).append(v)
    violations = head + tail
    for v in violations[:300]:
        try:
            rp = spec.replay(ctx, native, v)
        except Exception as e:
            inconclusive.append("replay of %s failed: %s" % (v.get("vc"), str(e)[:300]))
            continue
        v["replay"] = rp
        if rp.get("reproduced"):
            confirmed.append(v)
        else:
            inconclusive.append("counterexample for %s did not reproduce natively (encoding disagrees with the build): %s"
                                % (v.get("vc"), json.dumps(rp)[:400]))
    rc = 0
    out_lines = list(known_lines)
    if confirmed:
        os.makedirs(os.path.join(VERIF, "build", "replays" + build.ALT), exist_ok=True)
        # de-duplicate by (case kind, observed/expected)
        seen = set()
        k = 0
        for v in confirmed:
            sig = (v.get("vc", "").split("|")[0], v["replay"].get("line"))
            if sig in seen:
                continue
            seen.add(sig)
            k += 1
            rpath = os.path.join(VERIF, "build", "replays" + build.ALT, "%s-%d.json" % (pid, k))
            with open(rpath, "w") as f:
                json.dump({"property": pid, "vc": v.get("vc"), "case": v.get("case"), "inputs": v.get("inputs"),
                           "replay": v["replay"],
                           "rerun": "cd /verif && ./check replay %s" % rpath}, f, indent=1, default=str)
            out_lines.append("VIOLATION property=%s replay=%s" % (pid, rpath))
            if k >= 5:
                break
        rc = 1
    elif inconclusive:
        for inc in inconclusive[:20]:
            out_lines.append("INCONCLUSIVE property=%s reason=%s" % (pid, inc.replace("\n", " ")[:400]))
        rc = 2
    wall = time.time() - t_start
    for n in native.values():
        n.close()
    write_evidence(ev_path, pid, tier, seed, spec, results, confirmed, inconclusive, known_lines, cosim_n, wall, ctx)
    for l in out_lines:
        print(l)
    nvc = sum(r.get("vcs", 0) for r in results)
    nd = sum(r.get("discharged", 0) for r in results)
    print("%s: %d cases, %d VCs, %d discharged, %d confirmed violations, %d inconclusive, %.1fs"
          % (pid, len(results), nvc, nd, len(confirmed), len(inconclusive), wall))
    return rc


def write_evidence(path, pid, tier, seed, spec, results, confirmed, inconclusive, known_lines, cosim_n, wall, ctx):
    nvc = sum(r.get("vcs", 0) for r in results)
    nd = sum(r.get("discharged", 0) for r in results)
    fns = set()
    models = set()
    samples = []
    npaths = 0
    solver_t = 0.0
    distinct = set()
    stats = {}
    for r in results:
        fns.update(r.get("fns", []))
        models.update(r.get("models", []))
        npaths += r.get("paths", 0)
        solver_t += r.get("solver_time", 0.0)
        for s in r.get("samples", [])[:2]:
            if len(samples) < 12:
                samples.append(s)
        for d in r.get("distinct", []):
            distinct.add(d)
        for k, v in r.get("stats", {}).items():
            if isinstance(v, (int, float)):
                stats[k] = stats.get(k, 0) + v
    meta = getattr(spec, "META", {}) if spec else {}
    if not samples:
        samples = [{"note": "no case produced a sample"}]
    ev = {
        "property_id": pid,
        "tier": tier,
        "seed": seed,
        "level": "model_checking",
        "coverage": {
            "evaluations": nvc + cosim_n,
            "distinct_nontrivial": len(distinct),
            "rule": "one verification condition per (function, scale/mode/type case, execution path); a VC is counted as distinct "
                    "and non-trivial when its path condition is satisfiable-or-unknown under the feasibility check (infeasible paths are "
                    "pruned before VC generation) and it was decided by the SMT solver (not by constant folding)",
            "samples": samples,
            "traces_validated_against_impl": cosim_n,
            "states": max(1, npaths),
            "transitions": max(1, int(stats.get("blocks", 0))),
            "states_transitions_rule": "states = symbolic execution paths (path condition + symbolic store at a path end) explored; "
                                       "transitions = MIR basic blocks entered during symbolic execution, summed over paths",
            "obligations": nvc,
            "discharged": nd,
            "cases": len(results),
            "paths": npaths,
            "functions_encoded": sorted(fns)[:400],
            "builtin_models": sorted(models),
            "solver": "z3 %s (python API), Int theory with explicit machine semantics" % _z3ver(),
            "solver_time_s": round(solver_t, 2),
            "second_solver": {"rule": "a deterministic 1-in-N sample (crc32 of the VC name; N = 60 quick / 12 thorough, VERIF_CROSS overrides) of the VCs "
                                      "decided unsat by z3 %s is dumped as SMT-LIB2 and re-decided by cvc5 and /usr/bin/z3 4.8 (4 s cap each); "
                                      "a 'sat' answer makes the check inconclusive; unknown / timeout / (error lines prove nothing and are only counted" % _z3ver(),
                              "sampled": int(stats.get("cross_sampled", 0)),
                              "cvc5": {k[len("cross_cvc5_"):]: int(v) for k, v in stats.items() if k.startswith("cross_cvc5_")},
                              "z3_4_8": {k[len("cross_z3old_"):]: int(v) for k, v in stats.items() if k.startswith("cross_z3old_")}},
            "bounds": meta.get("bounds", ""),
            "outside_claim": meta.get("outside_claim", []),
            "known_findings": known_lines,
            "inconclusive": inconclusive[:50],
            "executor_stats": stats,
            "mir_dumps": {"%s/%s" % k: os.path.basename(os.path.dirname(v)) for k, v in ctx.mir.items()},
            "exhaustive": False,
        },
        "assumptions": meta.get("assumptions", []),
        "wall_s": round(wall, 2),
        "violations": len(confirmed),
    }
    os.makedirs(os.path.dirname(path), exist_ok=True)
    with open(path, "w") as f:
        json.dump(ev, f, indent=1, default=str)


def _z3ver():
    try:
        import z3
        return z3.get_version_string()
    except Exception:
        return "?"


def replay_file(path):
    d = json.load(open(path))
    rp = d.get("replay", {})
    prof = rp.get("profile", "dev")
    n = build.Native(prof)
    obs = n.ask(rp["line"])
    n.close()
    print("input   :", rp["line"])
    print("observed:", obs)
    print("expected:", rp.get("expected"))
    return 0
