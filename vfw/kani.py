"""Runner for the Kani harness crate (/verif/kani, path dependency on /repo)."""
import os
import re
import subprocess
import time
from . import build

KANI_DIR = os.path.join(build.VERIF, "kani")


def run_harness(name, features=(), timeout_s=900, playback=True, extra_args=(), mem_gb=14, target="kani-target"):
    """returns dict(status='success'|'failed'|'error'|'timeout', time_s, covers=(sat,total), failed_checks=[...], playback=[bytes...], log=path)"""
    os.makedirs(os.path.join(build.BUILD, "kani-logs"), exist_ok=True)
    log = os.path.join(build.BUILD, "kani-logs", name.replace(":", "_") + build.ALT + ".log")
    cmd = ["cargo", "kani", "--target-dir", build.bdir(target), "--harness", name]
    if features:
        cmd += ["--features", ",".join(features)]
    if playback:
        cmd += ["-Z", "concrete-playback", "--concrete-playback=print"]
    cmd += list(extra_args)
    t0 = time.time()
    with build.Lock("kani-" + target):
        pass    # serialise nothing but make sure the dir exists
    sh = "ulimit -v %d; exec %s" % (mem_gb * 1024 * 1024, " ".join("'%s'" % c for c in cmd))
    # own process group: on timeout the whole tree (cargo-kani, kani-driver, cbmc) is killed, not just the shell
    proc = subprocess.Popen(["bash", "-c", sh], cwd=build.crate_dir("kani"), env=build.ENV, stdout=subprocess.PIPE, stderr=subprocess.STDOUT, start_new_session=True)
    try:
        raw, _ = proc.communicate(timeout=timeout_s)
        out = raw.decode(errors="replace")
        status = None
    except subprocess.TimeoutExpired:
        import signal
        try:
            os.killpg(proc.pid, signal.SIGKILL)
        except OSError:
            pass
        raw, _ = proc.communicate()
        out = (raw or b"").decode(errors="replace")
        status = "timeout"
    except BaseException:
        import signal
        try:
            os.killpg(proc.pid, signal.SIGKILL)
        except OSError:
            pass
        raise
    dt = time.time() - t0
    with open(log, "w") as f:
        f.write(out)
    res = {"harness": name, "time_s": round(dt, 1), "log": log, "failed_checks": [], "playback": [], "covers": None}
    if status is None:
        if "VERIFICATION:- SUCCESSFUL" in out:
            status = "success"
        elif "VERIFICATION:- FAILED" in out:
            status = "failed"
        else:
            status = "error"
    res["status"] = status
    m = re.search(r"\*\* (\d+) of (\d+) cover properties satisfied", out)
    if m:
        res["covers"] = (int(m.group(1)), int(m.group(2)))
    m = re.search(r"Verification Time: ([0-9.]+)s", out)
    if m:
        res["solver_time_s"] = float(m.group(1))
    m = re.search(r"\*\* (\d+) of (\d+) failed", out)
    if m:
        res["n_failed"], res["n_checks"] = int(m.group(1)), int(m.group(2))
    m = re.search(r"(\d+) variables, (\d+) clauses", out)
    if m:
        res["sat_vars"], res["sat_clauses"] = int(m.group(1)), int(m.group(2))
    for mm in re.finditer(r"Failed Checks: (.*)", out):
        res["failed_checks"].append(mm.group(1).strip())
    # concrete playback: vec![ ... ] lines inside the printed test
    for mm in re.finditer(r"vec!\[([0-9, ]*)\]", out):
        res["playback"].append([int(x) for x in mm.group(1).replace(" ", "").split(",") if x])
    if "unwinding assertion" in " ".join(res["failed_checks"]):
        res["unwinding_failed"] = True
    return res


def le_int(bs, signed):
    v = int.from_bytes(bytes(bs), "little", signed=signed)
    return v
