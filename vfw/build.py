"""Rebuild everything the checks need from /repo's current working tree:
MIR dumps (per configuration), the native replay driver (dev + release)."""
import fcntl
import hashlib
import os
import subprocess
import sys
import time

REPO = os.environ.get("VERIF_REPO", "/repo")
VERIF = os.path.dirname(os.path.dirname(os.path.abspath(__file__)))
BUILD = os.path.join(VERIF, "build")
# a run against another copy of the repository (VERIF_REPO=<dir>: seeded-change runs in a scratch worktree) gets its own target
# directories, locks and copies of the path-dependent helper crates, so that it cannot disturb a run against /repo
ALT = "" if os.path.realpath(REPO) == "/repo" else "-alt" + hashlib.sha256(os.path.realpath(REPO).encode()).hexdigest()[:8]


def bdir(name):
    return os.path.join(BUILD, name + ALT)


def crate_dir(name):
    """directory of a helper crate of /verif with a path dependency on the repository (replay, kani)"""
    src = os.path.join(VERIF, name)
    if not ALT:
        return src
    import shutil
    dst = os.path.join(BUILD, "altcrates" + ALT, name)
    os.makedirs(os.path.join(dst, "src"), exist_ok=True)
    for fn in os.listdir(os.path.join(src, "src")):
        shutil.copy(os.path.join(src, "src", fn), os.path.join(dst, "src", fn))
    toml = open(os.path.join(src, "Cargo.toml")).read().replace('"/repo/', '"%s/' % os.path.realpath(REPO)).replace('"/repo"', '"%s"' % os.path.realpath(REPO))
    open(os.path.join(dst, "Cargo.toml"), "w").write(toml)
    if os.path.exists(os.path.join(src, "Cargo.lock")):
        shutil.copy(os.path.join(src, "Cargo.lock"), os.path.join(dst, "Cargo.lock"))
    return dst

ENV = dict(os.environ, CARGO_NET_OFFLINE="true", CARGO_TERM_COLOR="never")

# configuration name -> (overflow-checks, debug-assertions, features for crate fpdec)
CONFIGS = {
    "dev": ("on", "on", ""),
    "rel": ("off", "off", ""),
    "ovf-nodbg": ("on", "off", ""),
    "noovf-dbg": ("off", "on", ""),
    "dev-packed": ("on", "on", "packed"),
    "rel-packed": ("off", "off", "packed"),
    "ovf-nodbg-packed": ("on", "off", "packed"),
    "noovf-dbg-packed": ("off", "on", "packed"),
    "dev-nt": ("on", "on", "num-traits"),
    "dev-feat": ("on", "on", "num-traits,rkyv,serde-as-str"),
    "dev-feat-packed": ("on", "on", "num-traits,rkyv,serde-as-str,packed"),
}

CRATES = {"core": ("fpdec-core", "fpdec-core/src/lib.rs"),
          "main": ("fpdec", "src/lib.rs"),
          "macros": ("fpdec-macros", "fpdec-macros/src/lib.rs")}


def tree_hash():
    h = hashlib.sha256()
    paths = []
    for root in ("src", "fpdec-core", "fpdec-macros"):
        for dp, dns, fns in os.walk(os.path.join(REPO, root)):
            dns[:] = [d for d in dns if d != "target"]
            for fn in sorted(fns):
                paths.append(os.path.join(dp, fn))
    for fn in ("Cargo.toml", "Cargo.lock"):
        paths.append(os.path.join(REPO, fn))
    for p in sorted(paths):
        try:
            data = open(p, "rb").read()
        except OSError:
            continue
        h.update(p.encode())
        h.update(b"\0")
        h.update(data)
    return h.hexdigest()[:16]


class Lock:
    def __init__(self, name):
        os.makedirs(BUILD, exist_ok=True)
        self.path = os.path.join(BUILD, name + ALT + ".lock")

    def __enter__(self):
        self.f = open(self.path, "w")
        fcntl.flock(self.f, fcntl.LOCK_EX)
        return self

    def __exit__(self, *a):
        fcntl.flock(self.f, fcntl.LOCK_UN)
        self.f.close()


def mir_dump(cfg, crate, log=None):
    """returns path of the MIR dump of `crate` ('core'|'main'|'macros') under config cfg"""
    key = tree_hash()
    outdir = os.path.join(BUILD, "mir", key)
    out = os.path.join(outdir, "%s.%s.mir" % (crate, cfg))
    if os.path.exists(out) and os.path.getsize(out) > 1000:
        return out
    with Lock("mir-%s-%s" % (cfg, crate)):
        if os.path.exists(out) and os.path.getsize(out) > 1000:
            return out
        os.makedirs(outdir, exist_ok=True)
        ovf, dbg, feats = CONFIGS[cfg]
        pkg, librs = CRATES[crate]
        os.utime(os.path.join(REPO, librs), None)
        cmd = ["cargo", "+nightly", "rustc", "--offline", "-p", pkg, "--lib",
               "--target-dir", bdir("t-%s-%s" % (cfg, crate))]
        if feats and crate == "main":
            cmd += ["--features", feats]
        cmd += ["--", "-Zunpretty=mir", "-C", "overflow-checks=" + ovf, "-C", "debug-assertions=" + dbg]
        t0 = time.time()
        p = subprocess.run(cmd, cwd=REPO, env=ENV, stdout=subprocess.PIPE, stderr=subprocess.PIPE)
        if p.returncode != 0 or len(p.stdout) < 1000:
            sys.stderr.write(p.stderr.decode(errors="replace")[-3000:])
            raise RuntimeError("MIR dump failed for %s/%s" % (cfg, crate))
        tmp = out + ".tmp%d" % os.getpid()
        with open(tmp, "wb") as f:
            f.write(p.stdout)
        os.replace(tmp, out)
        if log:
            log("mir dump %s/%s: %.1fs" % (cfg, crate, time.time() - t0))
    return out


def replay_binary(profile="dev", packed=False):
    """build (if needed) and return the path of the native replay driver"""
    tdir = bdir("replay-target" + ("-packed" if packed else ""))
    with Lock("replay-" + profile + ("-packed" if packed else "")):
        cmd = ["cargo", "build", "--offline", "--target-dir", tdir]
        if profile == "release":
            cmd.append("--release")
        if packed:
            cmd += ["--features", "packed"]
        env = dict(ENV, RUSTFLAGS="--cfg fpdec_verif")      # hooks on (MANIFEST.hooks.guard)
        p = subprocess.run(cmd, cwd=crate_dir("replay"), env=env,
                           stdout=subprocess.PIPE, stderr=subprocess.PIPE)
        if p.returncode != 0:
            sys.stderr.write(p.stderr.decode(errors="replace")[-3000:])
            raise RuntimeError("replay driver build failed (%s)" % profile)
    return os.path.join(tdir, "debug" if profile == "dev" else "release", "replay")


class Native:
    """persistent replay-driver process (batch mode)"""

    def __init__(self, profile="dev", packed=False):
        self.path = replay_binary(profile, packed)
        self.profile = profile
        self.p = subprocess.Popen([self.path], stdin=subprocess.PIPE, stdout=subprocess.PIPE,
                                  universal_newlines=True, bufsize=1)
        self.n = 0

    def ask(self, line):
        self.p.stdin.write(line.strip() + "\n")
        self.p.stdin.flush()
        self.n += 1
        out = self.p.stdout.readline()
        if not out:
            raise RuntimeError("replay driver died on: " + line)
        return out.rstrip("\n")

    def ask_many(self, lines):
        return [self.ask(l) for l in lines]

    def close(self):
        try:
            self.p.stdin.close()
            self.p.wait(timeout=5)
        except Exception:
            self.p.kill()
