"""Term layer: Python ints / bools when concrete, z3 terms when symbolic.

All helper functions fold constants so that an execution with concrete inputs
is a plain interpreter (used for co-simulation against the native build).
"""
import z3

INT_TYPES = {
    "u8": (False, 8), "u16": (False, 16), "u32": (False, 32), "u64": (False, 64),
    "u128": (False, 128), "usize": (False, 64),
    "i8": (True, 8), "i16": (True, 16), "i32": (True, 32), "i64": (True, 64),
    "i128": (True, 128), "isize": (True, 64),
}


def ty_range(ty):
    s, w = INT_TYPES[ty]
    if s:
        return -(1 << (w - 1)), (1 << (w - 1)) - 1
    return 0, (1 << w) - 1


def is_conc(x):
    return isinstance(x, (int, bool))


def wrap_c(v, ty):
    s, w = INT_TYPES[ty]
    v &= (1 << w) - 1
    if s and v >> (w - 1):
        v -= 1 << w
    return v


def I(v):
    return z3.IntVal(v) if isinstance(v, int) else v


def B(v):
    return z3.BoolVal(v) if isinstance(v, bool) else v


def add(a, b):
    if is_conc(a) and is_conc(b):
        return a + b
    if is_conc(a) and a == 0:
        return b
    if is_conc(b) and b == 0:
        return a
    return I(a) + I(b)


def sub(a, b):
    if is_conc(a) and is_conc(b):
        return a - b
    if is_conc(b) and b == 0:
        return a
    return I(a) - I(b)


def mul(a, b):
    if is_conc(a) and is_conc(b):
        return a * b
    if is_conc(a):
        if a == 0:
            return 0
        if a == 1:
            return b
    if is_conc(b):
        if b == 0:
            return 0
        if b == 1:
            return a
    return I(a) * I(b)


def neg(a):
    if is_conc(a):
        return -a
    return -a


def cmp(op, a, b):
    if is_conc(a) and is_conc(b):
        return {"Eq": a == b, "Ne": a != b, "Lt": a < b, "Le": a <= b, "Gt": a > b, "Ge": a >= b}[op]
    a, b = I(a), I(b)
    return {"Eq": lambda: a == b, "Ne": lambda: a != b, "Lt": lambda: a < b, "Le": lambda: a <= b,
            "Gt": lambda: a > b, "Ge": lambda: a >= b}[op]()


def eq(a, b):
    return cmp("Eq", a, b)


def lt(a, b):
    return cmp("Lt", a, b)


def le(a, b):
    return cmp("Le", a, b)


def band(*xs):
    out = []
    for x in xs:
        if isinstance(x, bool):
            if not x:
                return False
            continue
        out.append(x)
    if not out:
        return True
    if len(out) == 1:
        return out[0]
    return z3.And(*out)


def bor(*xs):
    out = []
    for x in xs:
        if isinstance(x, bool):
            if x:
                return True
            continue
        out.append(x)
    if not out:
        return False
    if len(out) == 1:
        return out[0]
    return z3.Or(*out)


def bnot(x):
    if isinstance(x, bool):
        return not x
    return z3.Not(x)


def bxor(a, b):
    if isinstance(a, bool) and isinstance(b, bool):
        return a != b
    return z3.Xor(B(a), B(b))


def implies(a, b):
    return bor(bnot(a), b)


def ite(c, a, b):
    if isinstance(c, bool):
        return a if c else b
    if is_conc(a) and is_conc(b) and a == b and type(a) == type(b):
        return a
    if isinstance(a, bool) or isinstance(b, bool) or z3.is_bool(a) or z3.is_bool(b):
        return z3.If(c, B(a), B(b))
    return z3.If(c, I(a), I(b))


def in_range(t, ty):
    lo, hi = ty_range(ty)
    if is_conc(t):
        return lo <= t <= hi
    return z3.And(t >= lo, t <= hi)


def tdiv_c(a, b):
    """truncated division on Python ints"""
    q = abs(a) // abs(b)
    if (a < 0) != (b < 0):
        q = -q
    return q, a - q * b


_fresh = [0]


def fresh_int(prefix="t"):
    _fresh[0] += 1
    return z3.Int("%s!%d" % (prefix, _fresh[0]))


def fresh_bool(prefix="b"):
    _fresh[0] += 1
    return z3.Bool("%s!%d" % (prefix, _fresh[0]))


def term_id(t):
    if is_conc(t):
        return ("c", t)
    return t.get_id()
