"""Parser for rustc's textual MIR (`-Zunpretty=mir`).

Produces Function objects (also used for const / static / promoted items).
Statements are kept as text and parsed on demand (memoised) into small tuples.
Anything that is not understood raises MirSyntax -- callers treat this as
"inconclusive", never as a pass.
"""
import re
from functools import lru_cache


class MirSyntax(Exception):
    pass


class Function:
    __slots__ = ("name", "kind", "params", "ret", "locals", "blocks", "text",
                 "src", "order", "generic", "debug")

    def __init__(self, name, kind):
        self.name = name
        self.kind = kind          # 'fn' | 'const' | 'static'
        self.params = []          # [(local, type)]
        self.ret = None
        self.locals = {}          # local -> type text
        self.blocks = {}          # 'bb0' -> ([stmt text], terminator text)
        self.text = ""
        self.src = None           # 'src/binops/add_sub.rs' if derivable from name
        self.order = []
        self.debug = {}           # source variable name -> [locals]

    def __repr__(self):
        return "<%s %s>" % (self.kind, self.name)


_HDR = re.compile(r"^(fn|const|static(?: mut)?) (.*)$")


def split_top(s, sep=","):
    """Split s at top-level occurrences of sep (a single char), respecting
    (), [], {}, <> nesting and string / byte-string literals."""
    out = []
    depth = 0
    cur = []
    i = 0
    n = len(s)
    while i < n:
        c = s[i]
        if c == '"':
            j = i + 1
            while j < n:
                if s[j] == "\\":
                    j += 2
                    continue
                if s[j] == '"':
                    break
                j += 1
            cur.append(s[i:j + 1])
            i = j + 1
            continue
        if c == "'" and i + 2 < n and (s[i + 2] == "'" or (s[i + 1] == "\\" and s.find("'", i + 2) != -1 and s.find("'", i + 2) - i <= 8)):
            # char literal like 'a' or '\n' or '\u{..}'
            j = s.find("'", i + 2) if s[i + 1] == "\\" else i + 2
            cur.append(s[i:j + 1])
            i = j + 1
            continue
        if c in "([{":
            depth += 1
        elif c in ")]}":
            depth -= 1
        elif c == "<":
            depth += 1
        elif c == ">":
            if i > 0 and s[i - 1] in "-=":
                pass
            else:
                depth -= 1
        if c == sep and depth == 0:
            out.append("".join(cur).strip())
            cur = []
        else:
            cur.append(c)
        i += 1
    last = "".join(cur).strip()
    if last or out:
        out.append(last)
    return out


def find_matching(s, i):
    """s[i] is an opening bracket; return index of its matching closer."""
    pairs = {"(": ")", "[": "]", "{": "}", "<": ">"}
    cl = pairs[s[i]]
    depth = 0
    n = len(s)
    j = i
    while j < n:
        c = s[j]
        if c == '"':
            j += 1
            while j < n and s[j] != '"':
                if s[j] == "\\":
                    j += 1
                j += 1
        elif c in "([{<":
            depth += 1
        elif c in ")]}":
            depth -= 1
        elif c == ">":
            if not (j > 0 and s[j - 1] in "-="):
                depth -= 1
        if depth == 0:
            if c != cl:
                raise MirSyntax("bracket mismatch in %r at %d" % (s, j))
            return j
        j += 1
    raise MirSyntax("unbalanced %r" % s)


def norm_type(t):
    """Normalise a type string: strip lifetimes, path prefixes, 'mut' noise in
    raw pointers kept.  `std::option::Option<i128>` -> `Option<i128>`."""
    t = t.strip()
    t = re.sub(r"'[a-z_][a-z_0-9]*\s*", "", t)          # lifetimes
    t = re.sub(r"for<[^>]*>\s*", "", t)
    # strip module paths in front of identifiers (not touching `<impl ...>`)
    t = re.sub(r"\b(?:[A-Za-z_][A-Za-z0-9_]*::)+(?=[A-Za-z_<])", "", t)
    t = re.sub(r"\s+", " ", t)
    return t


def parse_mir(text):
    """Return list of Function (CTFE duplicates skipped)."""
    funcs = []
    lines = text.split("\n")
    i = 0
    n = len(lines)
    skip_next = False
    while i < n:
        ln = lines[i]
        if ln.startswith("// MIR FOR CTFE"):
            skip_next = True
            i += 1
            continue
        m = _HDR.match(ln)
        if not m or not (ln.rstrip().endswith("{") or ln.rstrip().endswith(";")):
            i += 1
            continue
        kind = m.group(1).split()[0]
        rest = m.group(2)
        if ln.rstrip().endswith(";"):
            # one-line const: `const NAME: T = const V;`
            k1 = _first_top_level(rest, ": ")
            k2 = _first_top_level(rest, " = ")
            if k1 is not None and k2 is not None and k1 < k2 and not skip_next:
                f = Function(rest[:k1], kind)
                f.ret = rest[k1 + 2:k2]
                f.locals["_0"] = f.ret
                f.blocks["bb0"] = (["_0 = %s" % rest[k2 + 3:-1]], "return")
                f.order = ["bb0"]
                funcs.append(f)
            skip_next = False
            i += 1
            continue
        # multi-line body: collect until a line that is exactly "}"
        j = i + 1
        while j < n and lines[j] != "}":
            j += 1
        body = lines[i + 1:j]
        if not skip_next:
            funcs.append(_parse_item(kind, rest.rstrip()[:-1].rstrip(), body))
        skip_next = False
        i = j + 1
    return funcs


def _parse_item(kind, header, body):
    if kind == "fn":
        # name(params) -> ret
        # find the parameter list: the '(' that starts "(_1:" or "()" before " -> "
        k = header.rfind(") -> ")
        if k < 0:
            raise MirSyntax("fn header: " + header)
        ret = header[k + 5:]
        # find matching '(' for the ')' at k
        depth = 0
        p = k
        while p >= 0:
            c = header[p]
            if c == ")":
                depth += 1
            elif c == "(":
                depth -= 1
                if depth == 0:
                    break
            p -= 1
        name = header[:p]
        params = header[p + 1:k]
        f = Function(name, "fn")
        f.ret = ret.strip()
        for prm in split_top(params):
            if not prm:
                continue
            mm = re.match(r"^(_\d+): (.*)$", prm)
            if not mm:
                raise MirSyntax("param: " + prm)
            f.params.append((mm.group(1), mm.group(2)))
            f.locals[mm.group(1)] = mm.group(2)
    else:
        k1 = _first_top_level(header, ": ")
        if k1 is None or not header.endswith(" ="):
            raise MirSyntax("const header: " + header)
        f = Function(header[:k1], kind)
        f.ret = header[k1 + 2:-2].strip()
    ms = re.search(r"<impl at ([^:>]+):(\d+):(\d+): (\d+):(\d+)>", f.name)
    if ms:
        f.src = (ms.group(1), int(ms.group(2)), int(ms.group(3)))
    cur = None
    stmts = []
    for ln in body:
        s = ln.strip()
        if not s or s.startswith("//"):
            continue
        if s.startswith("debug "):
            md = re.match(r"^debug (\w+) => (_\d+);$", s)
            if md and md.group(2) not in f.debug.setdefault(md.group(1), []):
                f.debug[md.group(1)].append(md.group(2))
        if s.startswith("debug ") or s.startswith("scope ") or s == "}":
            if s == "}" and cur is not None:
                # end of block
                if not stmts:
                    raise MirSyntax("empty block in " + f.name)
                f.blocks[cur] = (stmts[:-1], stmts[-1])
                f.order.append(cur)
                cur = None
                stmts = []
            continue
        mm = re.match(r"^let (?:mut )?(_\d+): (.*);$", s)
        if mm and cur is None:
            f.locals[mm.group(1)] = mm.group(2)
            continue
        mm = re.match(r"^(bb\d+)(?: \(cleanup\))?: \{$", s)
        if mm:
            cur = mm.group(1)
            stmts = []
            continue
        if cur is None:
            # e.g. multi-line const aggregate -- not expected at this level
            raise MirSyntax("unexpected line outside block in %s: %s" % (f.name, s))
        if s.endswith(";"):
            s = s[:-1]
        stmts.append(s)
    f.text = "\n".join(body)
    return f


# ---------------------------------------------------------------------------
# expression level
# ---------------------------------------------------------------------------

class Place:
    __slots__ = ("local", "proj")

    def __init__(self, local, proj=()):
        self.local = local
        self.proj = tuple(proj)   # each: ('deref',) ('field', n, ty) ('downcast', name) ('index', local) ('cindex', n, fromend)

    def __repr__(self):
        return "Place(%s,%s)" % (self.local, list(self.proj))


def parse_place(s):
    s = s.strip()
    p, k = _place(s, 0)
    if s[k:].strip():
        raise MirSyntax("trailing in place %r" % s)
    return p


def _skip_ws(s, i):
    while i < len(s) and s[i] == " ":
        i += 1
    return i


def _place(s, i):
    i = _skip_ws(s, i)
    if s[i] == "(":
        # (*P) | (P.N: T) | (P as V)
        j = i + 1
        if s[j] == "*":
            inner, k = _place(s, j + 1)
            k = _skip_ws(s, k)
            if s[k] != ")":
                raise MirSyntax("deref place %r" % s)
            pl = Place(inner.local, inner.proj + (("deref",),))
            k += 1
        else:
            inner, k = _place(s, j)
            k = _skip_ws(s, k)
            if s.startswith("as ", k):
                e = find_matching(s, i)
                name = s[k + 3:e].strip()
                pl = Place(inner.local, inner.proj + (("downcast", name),))
                k = e + 1
            elif s[k] == ".":
                m = re.match(r"\.(\d+): ", s[k:])
                if not m:
                    raise MirSyntax("field place %r" % s)
                e = find_matching(s, i)
                ty = s[k + m.end():e]
                pl = Place(inner.local, inner.proj + (("field", int(m.group(1)), ty),))
                k = e + 1
            else:
                raise MirSyntax("place %r" % s)
    else:
        m = re.match(r"_\d+", s[i:])
        if not m:
            raise MirSyntax("place %r" % s[i:])
        pl = Place(m.group(0))
        k = i + m.end()
    # postfix: [..] or .N (rare, without type)
    while k < len(s):
        if s[k] == "[":
            e = find_matching(s, k)
            idx = s[k + 1:e].strip()
            if re.fullmatch(r"_\d+", idx):
                pl = Place(pl.local, pl.proj + (("index", idx),))
            else:
                m = re.fullmatch(r"(-?\d+) of (\d+)", idx)
                if m:
                    pl = Place(pl.local, pl.proj + (("cindex", int(m.group(1)), False),))
                else:
                    raise MirSyntax("index %r" % idx)
            k = e + 1
        else:
            break
    return pl, k


BINOPS = {"Add", "Sub", "Mul", "Div", "Rem", "BitXor", "BitAnd", "BitOr", "Shl", "Shr",
          "Eq", "Lt", "Le", "Ne", "Ge", "Gt", "Cmp", "Offset",
          "AddWithOverflow", "SubWithOverflow", "MulWithOverflow",
          "AddUnchecked", "SubUnchecked", "MulUnchecked", "ShlUnchecked", "ShrUnchecked"}
UNOPS = {"Not", "Neg", "PtrMetadata"}


@lru_cache(maxsize=None)
def parse_operand(s):
    s = s.strip()
    if s.startswith("copy "):
        return ("copy", parse_place(s[5:]))
    if s.startswith("move "):
        return ("move", parse_place(s[5:]))
    if s.startswith("const "):
        return ("const", s[6:].strip())
    if not s.startswith(("copy ", "move ", "const ")) and re.match(r"^[A-Za-z_]", s):
        # path to a function item, generic arguments allowed in any segment: Cell::<Option<T>>::get, identity::<T>
        bare, depth = [], 0
        for ch in s:
            if ch == "<":
                depth += 1
            elif ch == ">":
                depth -= 1
            elif depth == 0:
                bare.append(ch)
        if depth == 0 and re.fullmatch(r"[A-Za-z_][A-Za-z0-9_:]*", "".join(bare)):
            return ("fnitem", s)
    if s.startswith("<") and re.search(r"::[A-Za-z_][A-Za-z0-9_]*(::<.*>)?$", s) and not re.match(r"^_\d+", s):
        # qualified path to a function item, e.g. <<D as Deserializer<'_>>::Error as de::Error>::custom::<T>
        return ("fnitem", s)
    raise MirSyntax("operand %r" % s)


@lru_cache(maxsize=None)
def parse_rvalue(s):
    s = s.strip()
    if s.startswith("no_retag "):
        s = s[9:]
    if s.startswith("&/*tls*/ "):
        return ("tlsref", s[9:].strip())
    # cast: `<operand> as T (Kind)`
    m = re.match(r"^(.*) as (.*) \((\w+(?:\([^)]*\))?(?:, \w+)?)\)$", s)
    if m and (s.startswith("copy ") or s.startswith("move ") or s.startswith("const ")):
        # make sure the ' as ' is top level of operand (operand places may contain ' as ')
        # find last top-level " as "
        idx = _last_top_level(s, " as ")
        if idx is not None:
            op = s[:idx]
            rest = s[idx + 4:]
            k = rest.rfind(" (")
            return ("cast", parse_operand(op), rest[:k].strip(), rest[k + 2:-1])
    if s.startswith("copy ") or s.startswith("move ") or s.startswith("const "):
        return ("use", parse_operand(s))
    if s.startswith("&raw const "):
        return ("ref", "raw", parse_place(s[11:]))
    if s.startswith("&raw mut "):
        return ("ref", "rawmut", parse_place(s[9:]))
    if s.startswith("&mut "):
        return ("ref", "mut", parse_place(s[5:]))
    if s.startswith("&fake shallow "):
        return ("ref", "shared", parse_place(s[14:]))
    if s.startswith("&"):
        return ("ref", "shared", parse_place(s[1:]))
    if s.startswith("discriminant("):
        return ("discr", parse_place(s[13:-1]))
    if s.startswith("deref_copy "):
        return ("use", ("copy", parse_place(s[11:])))
    if s.startswith("Len("):
        return ("len", parse_place(s[4:-1]))
    m = re.match(r"^(\w+)\((.*)\)$", s)
    if m and m.group(1) in BINOPS:
        a, b = split_top(m.group(2))
        return ("binop", m.group(1), parse_operand(a), parse_operand(b))
    if m and m.group(1) in UNOPS:
        return ("unop", m.group(1), parse_operand(m.group(2)))
    if m and m.group(1) in ("SizeOf", "AlignOf"):
        return ("nullop", m.group(1), m.group(2))
    if s.startswith("["):
        e = find_matching(s, 0)
        inner = s[1:e]
        parts = split_top(inner, ";")
        if len(parts) == 2:
            return ("repeat", parse_operand(parts[0]), parts[1].strip())
        return ("array", tuple(parse_operand(x) for x in split_top(inner) if x))
    if s.startswith("("):
        e = find_matching(s, 0)
        if e == len(s) - 1:
            inner = s[1:e]
            items = [x for x in split_top(inner) if x]
            return ("tuple", tuple(parse_operand(x) for x in items))
    if s.startswith("{closure@") or s.startswith("{coroutine@"):
        e = find_matching(s, 0)
        rest = s[e + 1:].strip()
        ups = ()
        if rest.startswith("("):
            ups = tuple(parse_operand(x) for x in split_top(rest[1:-1]) if x)
        elif rest.startswith("{"):
            flds = []
            for part in split_top(rest[1:-1].strip()):
                if not part:
                    continue
                k = part.index(": ")
                flds.append(parse_operand(part[k + 2:]))
            ups = tuple(flds)
        return ("closure", s[:e + 1], ups)
    # ADT aggregates:  Path { f: op, .. } | Path::Variant(op, ..) | Path(op) | Path::Variant | Path
    m = re.match(r"^(.*?) \{ (.*) \}$", s)
    if m and not s.startswith("const"):
        fields = []
        for part in split_top(m.group(2)):
            k = part.index(": ")
            fields.append((part[:k], parse_operand(part[k + 2:])))
        return ("adt", m.group(1).strip(), None, tuple(f[1] for f in fields), tuple(f[0] for f in fields))
    if s.endswith(")"):
        # find the '(' matching the last ')'
        depth = 0
        p = len(s) - 1
        while p >= 0:
            c = s[p]
            if c == ")":
                depth += 1
            elif c == "(":
                depth -= 1
                if depth == 0:
                    break
            p -= 1
        path = s[:p]
        args = tuple(parse_operand(x) for x in split_top(s[p + 1:-1]) if x)
        return ("adt", path.strip(), "call", args, None)
    if re.match(r"^[A-Za-z_<]", s):
        return ("adt", s, "unit", (), None)
    raise MirSyntax("rvalue %r" % s)


def _last_top_level(s, pat):
    depth = 0
    i = 0
    last = None
    n = len(s)
    while i < n:
        c = s[i]
        if c == '"':
            i += 1
            while i < n and s[i] != '"':
                if s[i] == "\\":
                    i += 1
                i += 1
        elif c in "([{<":
            depth += 1
        elif c in ")]}":
            depth -= 1
        elif c == ">" and not (i > 0 and s[i - 1] in "-="):
            depth -= 1
        if depth == 0 and s.startswith(pat, i):
            last = i
        i += 1
    return last


@lru_cache(maxsize=None)
def parse_statement(s):
    s = s.strip()
    if s.startswith(("StorageLive(", "StorageDead(", "FakeRead(", "PlaceMention(", "AscribeUserType(",
                     "Retag(", "Coverage::", "ConstEvalCounter", "nop", "BackwardIncompatibleDropHint(")):
        return ("nop",)
    if s.startswith("Deinit("):
        return ("nop",)
    if s.startswith("assume("):
        return ("assume", parse_operand(s[7:-1]))
    m = re.match(r"^discriminant\((.*)\) = (\d+)$", s)
    if m:
        return ("setdiscr", parse_place(m.group(1)), int(m.group(2)))
    # assignment: place = rvalue ; find first top-level " = "
    k = _first_top_level(s, " = ")
    if k is None:
        raise MirSyntax("statement %r" % s)
    return ("assign", parse_place(s[:k]), parse_rvalue(s[k + 3:]))


def _first_top_level(s, pat):
    depth = 0
    i = 0
    n = len(s)
    while i < n:
        c = s[i]
        if c == '"':
            i += 1
            while i < n and s[i] != '"':
                if s[i] == "\\":
                    i += 1
                i += 1
        elif c in "([{<":
            depth += 1
        elif c in ")]}":
            depth -= 1
        elif c == ">" and not (i > 0 and s[i - 1] in "-="):
            depth -= 1
        if depth == 0 and s.startswith(pat, i):
            return i
        i += 1
    return None


@lru_cache(maxsize=None)
def parse_terminator(s):
    s = s.strip()
    if s == "return":
        return ("return",)
    if s == "unreachable":
        return ("unreachable",)
    if s in ("resume", "abort", "terminate(abi)", "terminate(cleanup)"):
        return ("resume",)
    m = re.match(r"^goto -> (bb\d+)$", s)
    if m:
        return ("goto", m.group(1))
    m = re.match(r"^switchInt\((.*)\) -> \[(.*)\]$", s)
    if m:
        targets = []
        other = None
        for part in split_top(m.group(2)):
            a, b = part.split(": ")
            if a == "otherwise":
                other = b
            else:
                targets.append((int(a), b))
        return ("switch", parse_operand(m.group(1)), tuple(targets), other)
    if s.startswith("assert("):
        e = find_matching(s, 6)
        inner = s[7:e]
        parts = split_top(inner)
        cond = parts[0]
        expected = True
        if cond.startswith("!"):
            expected = False
            cond = cond[1:]
        msg = parts[1] if len(parts) > 1 else ""
        mm = re.search(r"success: (bb\d+)", s[e:])
        return ("assert", parse_operand(cond), expected, msg, mm.group(1))
    m = re.match(r"^drop\((.*)\) -> \[return: (bb\d+)", s)
    if m:
        return ("goto", m.group(2))
    m = re.match(r"^falseEdge -> \[real: (bb\d+)", s)
    if m:
        return ("goto", m.group(1))
    m = re.match(r"^falseUnwind -> \[real: (bb\d+)", s)
    if m:
        return ("goto", m.group(1))
    # call:  [place = ] callee(args) -> [return: bbN, unwind ...]  |  ... -> unwind continue
    k = _last_top_level(s, " -> ")
    if k is None:
        raise MirSyntax("terminator %r" % s)
    lhs = s[:k]
    tail = s[k + 4:]
    mm = re.match(r"^\[return: (bb\d+)", tail)
    target = mm.group(1) if mm else None
    dest = None
    ke = _first_top_level(lhs, " = ")
    if ke is not None:
        dest = parse_place(lhs[:ke])
        call = lhs[ke + 3:]
    else:
        call = lhs
    # callee(args): args are in the last top-level (...) group
    if not call.endswith(")"):
        raise MirSyntax("call %r" % s)
    depth = 0
    p = len(call) - 1
    while p >= 0:
        c = call[p]
        if c == '"':
            p -= 1
            while p >= 0 and call[p] != '"':
                p -= 1
        elif c == ")":
            depth += 1
        elif c == "(":
            depth -= 1
            if depth == 0:
                break
        p -= 1
    callee = call[:p].strip()
    args = tuple(parse_operand(x) for x in split_top(call[p + 1:-1]) if x)
    return ("call", dest, callee, args, target)
