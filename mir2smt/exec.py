"""Symbolic / concrete executor for rustc MIR over mathematical integers with
explicit machine semantics.  See DESIGN.md section 1.2.

Path-wise exploration (DFS) with optional state merging at loop exits for
selected functions.  Everything not modelled raises Unsupported (fail closed).
"""
import re
import os
import time
import z3
from . import terms as T
from .terms import INT_TYPES, ty_range, is_conc
from .mirparse import (parse_mir, parse_statement, parse_terminator, norm_type, Place,
                       MirSyntax, split_top)


class Unsupported(Exception):
    pass


class Infeasible(Exception):
    pass


# --------------------------------------------------------------------------
# values
# --------------------------------------------------------------------------

class IV:
    """integer value: term (python int or z3 Int) + rust type; tz = known number
    of trailing zero bits, ub = value known < 2^ub (None = unknown)."""
    __slots__ = ("t", "ty", "tz", "ub", "ex")

    def __init__(self, t, ty, tz=0, ub=None, ex=None):
        if isinstance(t, bool):
            t = int(t)
        self.t = t
        self.ty = ty
        self.tz = tz
        self.ub = ub
        self.ex = ex        # exact (unwrapped) term with t = ex mod 2^w, for chains of wrapping ops

    def __repr__(self):
        return "IV(%s:%s)" % (self.t, self.ty)


def int_to_float_bits(x, fty):
    """bit pattern of the integer x converted to f64 / f32 like Rust's `as` (round to nearest, ties to even; overflow to infinity)"""
    fb, eb, bias = (52, 11, 1023) if fty == "f64" else (23, 8, 127)
    sign = 1 if x < 0 else 0
    m = abs(x)
    if m == 0:
        return sign << (fb + eb)
    n = m.bit_length()
    if n <= fb + 1:
        mant = m << (fb + 1 - n)
    else:
        sh = n - (fb + 1)
        mant = m >> sh
        rem = m & ((1 << sh) - 1)
        half = 1 << (sh - 1)
        if rem > half or (rem == half and (mant & 1)):
            mant += 1
            if mant == 1 << (fb + 1):
                mant >>= 1
                n += 1
    e = n - 1 + bias
    if e >= (1 << eb) - 1:
        return (sign << (fb + eb)) | (((1 << eb) - 1) << fb)
    return (sign << (fb + eb)) | (e << fb) | (mant & ((1 << fb) - 1))


def float_arith(op, abits, bbits, fty):
    """IEEE result bits of a (+|-|*|/) b for f64 / f32 operands given as bit patterns (round to nearest even, like the hardware)"""
    import struct
    fb, eb = (52, 11) if fty == "f64" else (23, 8)
    emask = ((1 << eb) - 1) << fb
    for bits in (abits, bbits):
        # a NaN operand is propagated (first one wins, made quiet): what x86-64 SSE does; Rust leaves NaN payloads unspecified
        if bits & emask == emask and bits & ((1 << fb) - 1):
            return bits | (1 << (fb - 1))
    if fty == "f64":
        x = struct.unpack("<d", struct.pack("<Q", abits))[0]
        y = struct.unpack("<d", struct.pack("<Q", bbits))[0]
    else:
        import numpy as np
        x = np.frombuffer(struct.pack("<I", abits), dtype=np.float32)[0]
        y = np.frombuffer(struct.pack("<I", bbits), dtype=np.float32)[0]
    try:
        if op == "Add":
            r = x + y
        elif op == "Sub":
            r = x - y
        elif op == "Mul":
            r = x * y
        else:
            if fty == "f64" and y == 0.0:
                import math
                r = math.nan if x == 0.0 else math.copysign(math.inf, x) * math.copysign(1.0, y)
            else:
                import warnings
                with warnings.catch_warnings():
                    warnings.simplefilter("ignore")
                    r = x / y
    except OverflowError:
        import math
        r = math.inf
    if r != r:
        # invalid operation (0/0, inf - inf, 0 * inf): the default NaN of SSE (sign bit set, quiet)
        return (1 << (fb + eb)) | emask | (1 << (fb - 1))
    if fty == "f64":
        return struct.unpack("<Q", struct.pack("<d", r))[0]
    import numpy as np
    return int(np.frombuffer(np.float32(r).tobytes(), dtype=np.uint32)[0])


class FV:
    """float value carried as bit pattern (IV of u64/u32) or as an opaque cast"""
    __slots__ = ("bits", "ty", "src")

    def __init__(self, bits, ty, src=None):
        self.bits = bits      # term of the bit pattern or None
        self.ty = ty
        self.src = src        # ('int_to_float', term, intty) when produced by an `as` cast

    def __repr__(self):
        return "FV(%s,%s,%s)" % (self.bits, self.ty, self.src)


class Agg:
    __slots__ = ("kind", "fields")

    def __init__(self, kind, fields):
        self.kind = kind
        self.fields = tuple(fields)

    def __repr__(self):
        return "%s%s" % (self.kind, list(self.fields))


class EnumV:
    __slots__ = ("ty", "variant", "fields")

    def __init__(self, ty, variant, fields=()):
        self.ty = ty
        self.variant = variant
        self.fields = tuple(fields)

    def __repr__(self):
        return "%s#%s%s" % (self.ty, self.variant, list(self.fields))


class OvfT:
    __slots__ = ("exact", "ty", "flag")

    def __init__(self, exact, ty, flag):
        self.exact = exact
        self.ty = ty
        self.flag = flag


class RefV:
    __slots__ = ("fuid", "local", "proj", "box")

    def __init__(self, fuid=None, local=None, proj=(), box=None):
        self.fuid = fuid
        self.local = local
        self.proj = tuple(proj)
        self.box = box     # key into state.heap for references to constants / statics

    def __repr__(self):
        return "Ref(%s,%s,%s,%s)" % (self.fuid, self.local, self.proj, self.box)


class StrV:
    __slots__ = ("s",)

    def __init__(self, s):
        self.s = s

    def __repr__(self):
        return "Str(%r)" % (self.s,)


class SliceV:
    """&[u8] / &str viewed as bytes: tuple of byte terms, window [start, start+len)"""
    __slots__ = ("data", "start", "len")

    def __init__(self, data, start, ln):
        self.data = data
        self.start = start
        self.len = ln


class PtrV:
    __slots__ = ("slice", "elem")

    def __init__(self, sl, elem="u8"):
        self.slice = sl
        self.elem = elem


class FnItem:
    __slots__ = ("name",)

    def __init__(self, name):
        self.name = name


class Opaque:
    __slots__ = ("tag", "payload")

    def __init__(self, tag, payload=None):
        self.tag = tag
        self.payload = payload

    def __repr__(self):
        return "Opaque(%s,%r)" % (self.tag, self.payload)


UNIT = Agg("tuple", ())

BUILTIN_ENUMS = {
    "Option": ["None", "Some"],
    "Result": ["Ok", "Err"],
    "ControlFlow": ["Continue", "Break"],
    "Ordering": ["Less", "Equal", "Greater"],
}


def enum_discr(ev):
    if ev.ty == "Ordering":
        return ev.variant - 1
    return ev.variant


# --------------------------------------------------------------------------
# program: MIR of several crates + indexes
# --------------------------------------------------------------------------

class Program:
    def __init__(self, mir_files, repo="/repo", overflow_checks=True):
        self.repo = repo
        self.overflow_checks = overflow_checks
        self.funcs = []
        self.allocs = {}      # (crate, 'allocN') -> static item name
        for path in mir_files:
            crate = os.path.basename(path).split(".")[0]
            txt_ = open(path).read()
            for ma in re.finditer(r"^(alloc\d+) \(static: ([^,)]+)", txt_, re.M):
                self.allocs[(crate, ma.group(1))] = ma.group(2).strip()
            for f in parse_mir(txt_):
                f.generic = crate
                self.funcs.append(f)
        self.by_last = {}
        self.consts = {}
        self.closures = {}
        for f in self.funcs:
            last = self._last_seg(f.name)
            if f.kind == "fn":
                self.by_last.setdefault(last, []).append(f)
                p0 = re.sub(r"^&(mut )?", "", f.params[0][1]) if f.params else ""
                if p0.startswith("{closure@"):      # Fn: &{closure}, FnMut: &mut {closure}, FnOnce: {closure}
                    self.closures[norm_type(p0)] = f
            else:
                self.consts.setdefault(self._const_key(f.name), []).append(f)
        self.enums = dict(BUILTIN_ENUMS)
        self.assoc_output = {}
        self._scan_enums()
        self._scan_assoc_outputs()
        self._const_cache = {}
        self._src_cache = {}

    @staticmethod
    def _last_seg(name):
        # last path segment outside <>: "a::<impl at ..>::add" -> "add"; keep "{closure#0}" chains
        parts = split_top(name.replace("::", "\x00"), "\x00")
        return parts[-1]

    @staticmethod
    def _const_key(name):
        parts = split_top(name.replace("::", "\x00"), "\x00")
        # key on the trailing identifier segments (e.g. ('Decimal','ZERO') -> 'ZERO')
        return parts[-1]

    def _scan_enums(self):
        for root in ("src", "fpdec-core/src", "fpdec-macros/src"):
            d = os.path.join(self.repo, root)
            if not os.path.isdir(d):
                continue
            for dp, _, fns in os.walk(d):
                for fn in fns:
                    if not fn.endswith(".rs"):
                        continue
                    txt = open(os.path.join(dp, fn)).read()
                    for m in re.finditer(r"\benum\s+(\w+)\s*\{(.*?)\n\}", txt, re.S):
                        body = re.sub(r"//[^\n]*", "", m.group(2))
                        body = re.sub(r"#\[[^\]]*\]", "", body)
                        vs = []
                        for part in split_top(body):
                            part = part.strip()
                            if not part:
                                continue
                            mm = re.match(r"^(\w+)", part)
                            if mm:
                                vs.append(mm.group(1))
                        self.enums[m.group(1)] = vs

    def _scan_assoc_outputs(self):
        """trait name -> the single `type Output` all its impls in the repository use (projections resolved by fixpoint)"""
        found = {}
        for root in ("src", "fpdec-core/src"):
            d = os.path.join(self.repo, root)
            for dp, _, fns in os.walk(d):
                for fn in fns:
                    if not fn.endswith(".rs"):
                        continue
                    txt = open(os.path.join(dp, fn)).read()
                    for m in re.finditer(r"impl(?:<[^>]*>)?\s+\$?(\w+)(?:<[^{;]*?>)?\s+for\s+([&\w$' ]+?)\s*(?:where[^{]*)?\{\s*type Output = ([^;]+);", txt, re.S):
                        trait, selfty, out = m.group(1), m.group(2).strip(), m.group(3).strip()
                        if trait == "imp":
                            continue
                        if out == "Self":
                            out = selfty.lstrip("&").strip()
                        found.setdefault(trait, set()).add(out)
        for trait, outs in found.items():
            concrete = {o for o in outs if " as " not in o and "$" not in o}
            if len(concrete) == 1:
                self.assoc_output[trait] = concrete.pop()

    def assoc_type(self, trait, selfty, name):
        """`type <name> = X;` inside `impl <trait> for <selfty>` (from the source)"""
        for root in ("src", "fpdec-core/src"):
            d = os.path.join(self.repo, root)
            for dp, _, fns in os.walk(d):
                for fn in fns:
                    if not fn.endswith(".rs"):
                        continue
                    txt = open(os.path.join(dp, fn)).read()
                    for m in re.finditer(r"impl\s+%s\s+for\s+%s\s*\{(.*?)\n\}" % (re.escape(trait), re.escape(selfty)), txt, re.S):
                        mm = re.search(r"type\s+%s\s*=\s*([^;]+);" % re.escape(name), m.group(1))
                        if mm:
                            return mm.group(1).strip()
        return None

    def resolve_projection(self, ty):
        """`<A as Trait<B>>::Output` -> concrete type when the table knows the trait"""
        prev = None
        while prev != ty:
            prev = ty
            m = re.search(r"<((?:[^<>]|<(?:[^<>]|<[^<>]*>)*>)*?) as (\w+)(?:<(?:[^<>]|<[^<>]*>)*>)?>::Output", ty)
            if not m:
                break
            out = self.assoc_output.get(m.group(2))
            if out is None:
                break
            ty = ty[:m.start()] + out + ty[m.end():]
        return ty

    def source_line(self, path, line):
        key = path
        if key not in self._src_cache:
            try:
                self._src_cache[key] = open(os.path.join(self.repo, path)).read().split("\n")
            except OSError:
                self._src_cache[key] = []
        lines = self._src_cache[key]
        return lines[line - 1] if 0 < line <= len(lines) else ""

    def impl_header(self, f):
        if not f.src:
            return ""
        return self.source_line(f.src[0], f.src[1])

    def find_fn(self, pred):
        return [f for f in self.funcs if f.kind == "fn" and pred(f)]

    def fn_by_sig(self, last, params=None, ret=None, src=None, crate=None):
        """look up a function definition by last path segment, normalised param
        types, return type and (optionally) source file of the impl."""
        out = []
        for f in self.by_last.get(last, []):
            if params is not None and [norm_type(p[1]) for p in f.params] != [norm_type(p) for p in params]:
                continue
            if ret is not None and norm_type(f.ret) != norm_type(ret):
                continue
            if src is not None and not (f.src and f.src[0].endswith(src)) and src not in f.name:
                continue
            if crate is not None and f.generic != crate:
                continue
            out.append(f)
        return out


GENERIC_NAMES = ("T", "Q", "Self", "U", "H", "S", "D", "R", "I")


def apply_subst(s, subst):
    if not subst:
        return s
    for k, v in subst.items():
        s = re.sub(r"(?<![A-Za-z0-9_:])%s(?![A-Za-z0-9_])" % re.escape(k), v, s)
    return s


def unify(pattern, actual, subst):
    """very small type unifier: pattern may contain bare generic names."""
    pattern = norm_type(pattern)
    actual = norm_type(actual)
    if pattern == actual:
        return True
    if pattern in GENERIC_NAMES:
        if pattern in subst:
            return subst[pattern] == actual
        subst[pattern] = actual
        return True
    # structural: &X, &mut X
    for pre in ("&mut ", "&", "*const ", "*mut "):
        if pattern.startswith(pre) and actual.startswith(pre):
            return unify(pattern[len(pre):], actual[len(pre):], subst)
    m1 = re.match(r"^(\w+)<(.*)>$", pattern)
    m2 = re.match(r"^(\w+)<(.*)>$", actual)
    if m1 and m2 and m1.group(1) == m2.group(1):
        a1 = split_top(m1.group(2))
        a2 = split_top(m2.group(2))
        if len(a1) == len(a2):
            return all(unify(x, y, subst) for x, y in zip(a1, a2))
    if pattern.startswith("(") and actual.startswith("("):
        a1 = split_top(pattern[1:-1])
        a2 = split_top(actual[1:-1])
        if len(a1) == len(a2):
            return all(unify(x, y, subst) for x, y in zip(a1, a2))
    return False


# --------------------------------------------------------------------------
# state
# --------------------------------------------------------------------------

class Frame:
    __slots__ = ("uid", "fn", "locals", "bb", "idx", "dest", "target", "subst", "visits", "entered")

    def __init__(self, uid, fn, subst=None):
        self.uid = uid
        self.fn = fn
        self.locals = {}
        self.bb = "bb0"
        self.idx = 0
        self.dest = None
        self.target = None
        self.subst = subst or {}
        self.visits = {}
        self.entered = False

    def copy(self):
        f = Frame(self.uid, self.fn, self.subst)
        f.locals = dict(self.locals)
        f.bb = self.bb
        f.idx = self.idx
        f.dest = self.dest
        f.target = self.target
        f.visits = dict(self.visits)
        f.entered = self.entered
        return f


class State:
    def __init__(self):
        self.frames = []
        self.pc = []            # branch conditions (z3 bool)
        self.defs = []          # definitional constraints (fresh q,r ...)
        self.divcache = {}
        self.false_ids = {}     # id -> term, for terms asserted false on this path (the term is kept alive: z3 reuses ids of freed ASTs)
        self.true_ids = {}
        self.conc = {}          # term id -> concrete value chosen by a fork
        self.heap = {}          # boxes: constants, statics, thread-local cells
        self.obs = []           # observations (fmt calls, hash calls ...)
        self.next_uid = 0
        self.trace = []         # (fn, bb) for reachability / debugging
        self.tags = {}
        self.groups = []        # droppable definitions: (tuple of fresh vars, tuple of constraints)
        self.divlog = []        # (dividend, divisor, q, r) of every symbolic truncated division, in execution order

    def copy(self):
        s = State()
        s.frames = [f.copy() for f in self.frames]
        s.pc = list(self.pc)
        s.defs = list(self.defs)
        s.divcache = dict(self.divcache)
        s.false_ids = dict(self.false_ids)
        s.true_ids = dict(self.true_ids)
        s.conc = dict(self.conc)
        s.heap = dict(self.heap)
        s.obs = list(self.obs)
        s.next_uid = self.next_uid
        s.trace = list(self.trace)
        s.tags = dict(self.tags)
        s.groups = list(self.groups)
        s.divlog = list(self.divlog)
        return s

    def frame(self, uid):
        for f in reversed(self.frames):
            if f.uid == uid:
                return f
        raise Unsupported("dangling reference to frame %s" % uid)

    def assume(self, c):
        if isinstance(c, bool):
            if not c:
                raise Infeasible()
            return
        self.pc.append(c)
        self.true_ids[c.get_id()] = c
        if z3.is_not(c):
            a0 = c.arg(0)
            self.false_ids[a0.get_id()] = a0

    def assume_not(self, c):
        if isinstance(c, bool):
            if c:
                raise Infeasible()
            return
        self.pc.append(z3.Not(c))
        self.false_ids[c.get_id()] = c

    def constraints(self):
        return self.defs + self.pc

    def mark_inputs(self):
        """remember the input assumptions (everything asserted so far): loop cuts reset the constraint store to them"""
        self.tags["base"] = (list(self.defs), dict(self.true_ids), dict(self.false_ids), list(self.groups))

    def define(self, fresh_vars, constraints, heavy=False):
        """definition of fresh variables (always satisfiable); may be dropped from a VC when unused.
        heavy: non-linear definitions that feasibility pruning leaves out (pruning with fewer constraints stays sound)"""
        cs = tuple(constraints)
        self.defs.extend(cs)
        self.groups.append((tuple(fresh_vars), cs))
        if heavy:
            hv = dict(self.tags.get("heavy", {}))
            for c in cs:
                hv[c.get_id()] = c
            self.tags["heavy"] = hv

    def pruned_constraints(self, goal=None, extra=()):
        """constraints without the definitions of fresh variables that nothing else mentions"""
        allc = self.defs + self.pc + list(extra)
        if not self.groups:
            return allc
        occ = _VARS_CACHE
        if len(occ) > 200000:
            occ.clear()

        def vars_of(e):
            i = e.get_id()
            if i in occ:
                return occ[i][1]
            out = set()
            stack = [e]
            seen = set()
            while stack:
                x = stack.pop()
                xi = x.get_id()
                if xi in seen:
                    continue
                seen.add(xi)
                if z3.is_const(x) and x.decl().kind() == z3.Z3_OP_UNINTERPRETED:
                    out.add(xi)
                else:
                    stack.extend(x.children())
            occ[i] = (e, out)
            return out
        gmap = {}
        for gi, (vs, cs) in enumerate(self.groups):
            for c in cs:
                gmap[c.get_id()] = gi
        count = {}
        base = [c for c in allc if not isinstance(c, bool)]
        if goal is not None and not isinstance(goal, bool):
            base = base + [goal]
        cvars = [(c, gmap.get(c.get_id()), vars_of(c)) for c in base]
        dropped = set()
        changed = True
        while changed:
            changed = False
            used_outside = {}
            for c, gi, vs in cvars:
                if gi is not None and gi in dropped:
                    continue
                for v in vs:
                    used_outside.setdefault(v, set()).add(gi)
            for gi, (vs, cs) in enumerate(self.groups):
                if gi in dropped:
                    continue
                ok = True
                for v in vs:
                    users = used_outside.get(v.get_id(), set())
                    if users - {gi}:
                        ok = False
                        break
                if ok:
                    dropped.add(gi)
                    changed = True
        if not dropped:
            return allc
        return [c for c in allc if isinstance(c, bool) or gmap.get(c.get_id()) not in dropped]

    def known(self, c):
        """True / False if the boolean term c (or its negation) was assumed on this path, else None"""
        if isinstance(c, bool):
            return c
        i = c.get_id()
        if i in self.true_ids:
            return True
        if i in self.false_ids:
            return False
        return None

    def assume_def(self, c):
        """add a definitional assumption (input domain) and remember it syntactically"""
        if isinstance(c, bool):
            if not c:
                raise Infeasible()
            return
        self.defs.append(c)
        self.true_ids[c.get_id()] = c
        if z3.is_not(c):
            a0 = c.arg(0)
            self.false_ids[a0.get_id()] = a0

    def assume_sign(self, t, nonneg):
        """record the sign of an int term in the syntactic forms the models look up"""
        if is_conc(t):
            return
        ge, lt_ = (t >= 0), (t < 0)
        if nonneg:
            self.defs.append(ge)
            self.true_ids[ge.get_id()] = ge
            self.false_ids[lt_.get_id()] = lt_
        else:
            self.defs.append(lt_)
            self.true_ids[lt_.get_id()] = lt_
            self.false_ids[ge.get_id()] = ge


class Outcome:
    __slots__ = ("kind", "value", "state", "msg")

    def __init__(self, kind, value, state, msg=None):
        self.kind = kind      # 'return' | 'panic'
        self.value = value
        self.state = state
        self.msg = msg

    def __repr__(self):
        return "Outcome(%s,%r,%r)" % (self.kind, self.value, self.msg)


class Fork(Exception):
    def __init__(self, alts, check=True):
        self.alts = alts      # list of (cond, fixup(state) or None)
        self.check = check    # False: do not prune alternatives by a feasibility query


# --------------------------------------------------------------------------
# executor
# --------------------------------------------------------------------------

class Executor:
    def __init__(self, prog, feas_timeout_ms=300, unwind=40, merge_fns=(), mode_term=None,
                 builtins=None, stats=None):
        self.prog = prog
        self.feas_timeout_ms = feas_timeout_ms
        self.unwind = unwind
        self.merge_fns = set(merge_fns)
        self.mode_term = mode_term      # thread's current rounding mode (int 0..7 or term)
        from . import builtins as B
        self.builtins = B
        self.stats = stats if stats is not None else {}
        self.feas_solver = z3.Solver()
        self.feas_solver.set("timeout", feas_timeout_ms)
        self._merge_points = {}
        self.contracts = {}     # last-seg name -> python callable(ex, st, args, fr) -> value | None
        self.max_paths = 200000
        self.encoded_fns = set()
        self.cuts = {}          # last-seg fn name -> Cut (loop invariant cut points)
        self.cut_log = []
        self.lemma_hooks = {}   # last-seg fn name -> callback(ex, st, frame) -> [(name, formula)]
        self.lemma_log = []
        self.lemma_timeout_ms = 120000

    # ---- solver helpers -------------------------------------------------
    def count(self, k, n=1):
        self.stats[k] = self.stats.get(k, 0) + n

    def feasible(self, st, cond=None):
        """False only if proven unsat; unknown counts as feasible."""
        if isinstance(cond, bool):
            return cond
        bnd = st.tags.get("bnd")
        if bnd and cond is not None:
            r0 = decide_by_intervals(cond, bnd)
            if r0 is not None:
                self.count("interval_decisions")
                return r0
        s = z3.Solver()
        nunk = st.tags.get("feas_unknowns", 0)
        # satisfiable non-linear queries tend to stay hard along a path: shrink the cap after repeated unknowns
        s.set("timeout", self.feas_timeout_ms if nunk < 2 else max(40, self.feas_timeout_ms // 6))
        heavy = st.tags.get("heavy")
        for c in st.constraints():
            if heavy and not isinstance(c, bool) and c.get_id() in heavy:
                continue
            s.add(c)
        if cond is not None:
            s.add(cond)
        t0 = time.time()
        r = s.check()
        self.count("feas_queries")
        self.stats["feas_time"] = self.stats.get("feas_time", 0.0) + time.time() - t0
        if r == z3.unknown:
            self.count("feas_unknown")
            st.tags["feas_unknowns"] = nunk + 1
        return r != z3.unsat

    def proves(self, st, cond, timeout_ms=500):
        """True only if pc => cond is proven."""
        if isinstance(cond, bool):
            return cond
        if cond.get_id() in st.true_ids:
            return True
        bnd = st.tags.get("bnd")
        if bnd:
            r0 = decide_by_intervals(cond, bnd)
            if r0 is True:
                self.count("interval_decisions")
                return True
        s = z3.Solver()
        s.set("timeout", timeout_ms)
        for c in st.constraints():
            s.add(c)
        s.add(z3.Not(cond))
        self.count("prove_queries")
        return s.check() == z3.unsat

    # ---- constants --------------------------------------------------------
    def eval_const(self, st, fr, text):
        text = text.strip()
        m = re.fullmatch(r"(-?\d+)_(u8|u16|u32|u64|u128|usize|i8|i16|i32|i64|i128|isize)", text)
        if m:
            return IV(int(m.group(1)), m.group(2))
        if text == "true":
            return True
        if text == "false":
            return False
        if text == "()":
            return UNIT
        m = re.fullmatch(r"(?:core::num::<impl )?(u8|u16|u32|u64|u128|usize|i8|i16|i32|i64|i128|isize)>?::(MIN|MAX|BITS)", text)
        if m:
            lo, hi = ty_range(m.group(1))
            if m.group(2) == "BITS":
                return IV(INT_TYPES[m.group(1)][1], "u32")
            return IV(lo if m.group(2) == "MIN" else hi, m.group(1))
        if text.startswith('"'):
            return StrV(_unescape(text[1:-1]))
        if text.startswith('b"'):
            return StrV(_unescape(text[2:-1], bytes_=True))
        m = re.fullmatch(r"(-?[0-9.]+(?:[eE][-+]?\d+)?)(f32|f64)", text)
        if m:
            import struct
            if m.group(2) == "f64":
                bits = struct.unpack("<Q", struct.pack("<d", float(m.group(1))))[0]
            else:
                bits = struct.unpack("<I", struct.pack("<f", float(m.group(1))))[0]
            return FV(bits, m.group(2))
        # enum unit variants written as consts: Option::<Infallible>::None
        m = re.fullmatch(r"(?:[\w:]*::)?(\w+)::<.*>::(\w+)", text)
        if m and m.group(1) in self.prog.enums and m.group(2) in self.prog.enums[m.group(1)]:
            return EnumV(m.group(1), self.prog.enums[m.group(1)].index(m.group(2)))
        ma = re.fullmatch(r"\{(alloc\d+): &(?:mut )?(.*)\}", text)
        if ma:
            crate = fr.fn.generic if fr is not None else None
            name = self.prog.allocs.get((crate, ma.group(1)))
            if name is None:
                raise Unsupported("reference to unknown allocation %s" % text)
            return RefV(box=("static", name))
        if text.startswith("ZeroSized: "):
            text = text[11:]
        if text.startswith("{closure@"):
            return Agg("closure:" + norm_type(text), ())
        text = apply_subst(text, fr.subst if fr else None)
        # promoted of the current function
        m = re.search(r"::promoted\[(\d+)\]$", text)
        if m:
            cands = self.prog.consts.get("promoted[%s]" % m.group(1), [])
            want = fr.fn.name + "::promoted[%s]" % m.group(1)
            for c in cands:
                if c.name == want:
                    return self.const_value(st, c)
            raise Unsupported("promoted const not found: %s (in %s)" % (text, fr.fn.name))
        # named constant
        key = Program._const_key(text)
        cands = self.prog.consts.get(key, [])
        if re.search(r"::\{constant#\d+\}$", text):
            cands = [c for c in cands if c.name == text or text.endswith("::" + c.name)]
            if not cands:
                return Opaque("anonconst", text)
        if len(cands) > 1:
            cands2 = self._disambiguate_const(text, cands, fr)
            if cands2:
                cands = cands2
        sub_for_const = None
        mself = re.match(r"^<(\w+) as [\w:]+>::\w+$", text)
        if mself:
            sub_for_const = {"Self": mself.group(1)}
        if len(cands) == 1:
            return self.const_value(st, cands[0], sub_for_const)
        if len(cands) > 1:
            vals = [self.const_value(st, c) for c in cands]
            if all(_same_const(vals[0], v) for v in vals[1:]):
                return vals[0]
            raise Unsupported("ambiguous const %s: %s" % (text, [c.name for c in cands]))
        v = self.builtins.known_const(text)
        if v is not None:
            return v
        raise Unsupported("const %r" % text)

    def _disambiguate_const(self, text, cands, fr):
        nt = norm_type(text)
        # `<f64 as Float>::FRACTION_BITS` / `<Self as ..>` after substitution: match impl header self type
        m = re.match(r"^<(\w+) as ([\w:]+)>::(\w+)$", text)
        out = []
        if m:
            selfty = m.group(1)
            for c in cands:
                hdr = self.prog.impl_header(c)
                if re.search(r"\bfor\s+%s\b" % re.escape(selfty), hdr):
                    out.append(c)
            if out:
                return out
            # default value in the trait itself (no impl header match): pick trait-level const
            for c in cands:
                if "<impl at" not in c.name:
                    out.append(c)
            return out
        # prefer exact name match, then a path-suffix match, then same enclosing function
        for c in cands:
            if c.name == text:
                out.append(c)
        if out:
            return out
        for c in cands:
            if text.endswith("::" + c.name) or c.name.endswith("::" + text):
                out.append(c)
        if out:
            return out
        segs = text.split("::")
        if len(segs) >= 2:
            for c in cands:
                if c.name.endswith("::".join(segs[-2:])):
                    out.append(c)
            if out:
                return out
        if fr is not None:
            base = Program._last_seg(fr.fn.name)
            for c in cands:
                if ("::" + base + "::") in ("::" + c.name):
                    out.append(c)
        return out

    def const_value(self, st, cdef, subst=None):
        key = cdef.name + "@" + cdef.generic + "@" + repr(sorted((subst or {}).items()))
        if key in self.prog._const_cache:
            return self.prog._const_cache[key]
        sub = Executor(self.prog, mode_term=self.mode_term)
        sub.contracts = {}
        s0 = State()
        fr = Frame(0, cdef, dict(subst or {}))
        s0.next_uid = 1
        s0.frames.append(fr)
        outs = sub.explore(s0)
        if len(outs) != 1 or outs[0].kind != "return":
            raise Unsupported("const %s did not evaluate to a single value" % cdef.name)
        v = outs[0].value
        if isinstance(v, RefV):
            # promoted reference: box the referent so that it survives the frame
            v = self._box_ref(outs[0].state, v)
        self.prog._const_cache[key] = v
        return v

    def _box_ref(self, st, r):
        val = self.read_ref(st, r)
        if isinstance(val, RefV):
            val = self._box_ref(st, val)
        return RefV(box=("const", id(val), _Holder(val)))

    # ---- places -----------------------------------------------------------
    def read_local(self, st, fr, local):
        try:
            return fr.locals[local]
        except KeyError:
            raise Unsupported("read of uninitialised local %s in %s" % (local, fr.fn.name))

    def read_ref(self, st, r):
        if r.box is not None:
            if r.box[0] == "const":
                v = r.box[2].v
            else:
                if r.box not in st.heap and r.box[0] == "static":
                    self._init_static(st, r.box)
                v = st.heap[r.box]
            return self._project(st, None, v, r.proj)
        fr = st.frame(r.fuid)
        v = self.read_local(st, fr, r.local)
        return self._project(st, fr, v, r.proj)

    def write_ref(self, st, r, val):
        if r.box is not None:
            if r.box[0] == "const":
                raise Unsupported("write through reference to constant")
            if r.box not in st.heap and r.box[0] == "static":
                self._init_static(st, r.box)
            st.heap[r.box] = self._update(st, None, st.heap[r.box], r.proj, val)
            return
        fr = st.frame(r.fuid)
        if not r.proj:
            fr.locals[r.local] = val
        else:
            fr.locals[r.local] = self._update(st, fr, self.read_local(st, fr, r.local), r.proj, val)

    def _init_static(self, st, box):
        """a plain `static` item is ONE cell shared by all threads; its initial value comes from the item's MIR"""
        name = box[1]
        cands = [c for c in self.prog.consts.get(Program._const_key(name), []) if c.kind == "static" and c.name == name]
        if len(cands) != 1:
            raise Unsupported("static item %s not found" % name)
        st.heap[box] = self.const_value(st, cands[0])
        st.obs.append(("static-init", name))

    def conc(self, st, t, what="value"):
        """concrete value of an int term (python int), forking if needed"""
        if is_conc(t):
            return int(t)
        tid = t.get_id()
        if tid in st.conc:
            return st.conc[tid]
        s = z3.simplify(t)
        if z3.is_int_value(s):
            return s.as_long()
        raise Fork([("enum", t, what)])

    def _project(self, st, fr, v, proj):
        for i, p in enumerate(proj):
            k = p[0]
            if k == "deref":
                if not isinstance(v, RefV):
                    if isinstance(v, (SliceV, StrV, PtrV, Opaque)):
                        continue
                    raise Unsupported("deref of non-reference %r" % (v,))
                v = self.read_ref(st, v)
            elif k == "field":
                n = p[1]
                if isinstance(v, OvfT):
                    if n == 1:
                        v = v.flag
                    else:
                        fl = v.flag
                        if isinstance(fl, bool):
                            v = IV(v.exact if not fl else T.wrap_c(v.exact, v.ty) if is_conc(v.exact) else self.wrap(st, v.exact, v.ty), v.ty) \
                                if not (fl and is_conc(v.exact)) else IV(T.wrap_c(v.exact, v.ty), v.ty)
                        elif fl.get_id() in st.false_ids:
                            v = IV(v.exact, v.ty)
                        else:
                            v = IV(self.wrap(st, v.exact, v.ty), v.ty)
                elif isinstance(v, (Agg, EnumV)):
                    try:
                        v = v.fields[n]
                    except IndexError:
                        raise Unsupported("field %d of %r" % (n, v))
                else:
                    raise Unsupported("field of %r" % (v,))
            elif k == "downcast":
                if not isinstance(v, EnumV):
                    raise Unsupported("downcast of %r" % (v,))
                names = self.prog.enums.get(v.ty)
                if names and names[v.variant] != p[1]:
                    raise Unsupported("downcast to %s of %r" % (p[1], v))
            elif k == "index":
                idxv = self.read_local(st, fr, p[1])
                i_c = self.conc(st, idxv.t, "index")
                if isinstance(v, Agg):
                    if not (0 <= i_c < len(v.fields)):
                        raise Unsupported("index %d out of bounds without preceding check" % i_c)
                    v = v.fields[i_c]
                elif isinstance(v, SliceV):
                    v = v.data[v.start + i_c]
                else:
                    raise Unsupported("index into %r" % (v,))
            elif k == "cindex":
                v = v.fields[p[1]]
            else:
                raise Unsupported("projection %r" % (p,))
        return v

    def _update(self, st, fr, v, proj, newval):
        if not proj:
            return newval
        p = proj[0]
        k = p[0]
        if k == "deref":
            if not isinstance(v, RefV):
                raise Unsupported("write deref of %r" % (v,))
            tgt = RefV(v.fuid, v.local, v.proj + tuple(proj[1:]), v.box)
            self.write_ref(st, tgt, newval)
            return v
        if k == "field":
            n = p[1]
            if isinstance(v, Agg):
                fs = list(v.fields)
                fs[n] = self._update(st, fr, fs[n], proj[1:], newval)
                return Agg(v.kind, fs)
            if isinstance(v, EnumV):
                fs = list(v.fields)
                fs[n] = self._update(st, fr, fs[n], proj[1:], newval)
                return EnumV(v.ty, v.variant, fs)
            raise Unsupported("field write into %r" % (v,))
        if k == "downcast":
            return self._update(st, fr, v, proj[1:], newval)
        if k == "index":
            idxv = self.read_local(st, fr, p[1])
            i_c = self.conc(st, idxv.t, "index")
            fs = list(v.fields)
            fs[i_c] = self._update(st, fr, fs[i_c], proj[1:], newval)
            return Agg(v.kind, fs)
        raise Unsupported("write projection %r" % (p,))

    def read_place(self, st, fr, pl):
        v = self.read_local(st, fr, pl.local)
        if not pl.proj:
            return v
        return self._project(st, fr, v, pl.proj)

    def write_place(self, st, fr, pl, val):
        if not pl.proj:
            fr.locals[pl.local] = val
            return
        if pl.local not in fr.locals:
            # partial initialisation of an aggregate (e.g. `(_5.0: T) = ..`)
            fr.locals[pl.local] = self._blank(fr, pl)
        fr.locals[pl.local] = self._update(st, fr, fr.locals[pl.local], pl.proj, val)

    def _blank(self, fr, pl):
        ty = norm_type(apply_subst(fr.fn.locals[pl.local], fr.subst))
        if ty.startswith("("):
            n = len(split_top(ty[1:-1]))
            return Agg("tuple", [None] * n)
        raise Unsupported("partial init of %s: %s" % (pl.local, ty))

    # ---- operands / rvalues -------------------------------------------------
    def eval_operand(self, st, fr, op):
        k = op[0]
        if k in ("copy", "move"):
            return self.read_place(st, fr, op[1])
        if k == "const":
            return self.eval_const(st, fr, op[1])
        if k == "fnitem":
            return FnItem(op[1])
        raise Unsupported("operand %r" % (op,))

    def static_type(self, fr, op):
        """static type text of an operand (for call resolution)"""
        k = op[0]
        if k in ("copy", "move"):
            pl = op[1]
            ty = fr.fn.locals.get(pl.local)
            for p in pl.proj:
                if p[0] == "field":
                    ty = p[2]
                elif p[0] == "deref":
                    ty = norm_type(ty)
                    ty = re.sub(r"^(&mut |&|\*const |\*mut )", "", ty)
                elif p[0] == "downcast":
                    pass
                elif p[0] in ("index", "cindex"):
                    m = re.match(r"^\[(.*); .*\]$", norm_type(ty))
                    ty = m.group(1) if m else "?"
            return self.prog.resolve_projection(norm_type(apply_subst(ty, fr.subst)))
        if k == "const":
            txt = op[1]
            m = re.fullmatch(r"-?\d+_(\w+)", txt)
            if m:
                return m.group(1)
            if txt in ("true", "false"):
                return "bool"
            if txt.startswith('"'):
                return "&str"
            m = re.fullmatch(r"(?:core::num::<impl )?(\w+)>?::(MIN|MAX)", txt)
            if m:
                return m.group(1)
            key = Program._const_key(apply_subst(txt, fr.subst))
            m = re.search(r"::promoted\[(\d+)\]$", txt)
            if m:
                for c in self.prog.consts.get("promoted[%s]" % m.group(1), []):
                    if c.name == fr.fn.name + "::promoted[%s]" % m.group(1):
                        return norm_type(c.ret)
            cands = self.prog.consts.get(key, [])
            tys = {norm_type(c.ret) for c in cands}
            if len(tys) == 1:
                return tys.pop()
            m = re.fullmatch(r"(?:[\w:]*::)?(\w+)::<(.*)>::(\w+)", txt)
            if m:
                return "%s<%s>" % (m.group(1), m.group(2))
            return "?"
        return "?"

    def wrap(self, st, t, ty):
        """value of exact term t after wrapping into ty (mod 2^w), avoiding the
        mod term when the solver proves t in range."""
        if is_conc(t):
            return T.wrap_c(t, ty)
        inr = T.in_range(t, ty)
        if inr.get_id() in st.true_ids or self.proves(st, inr):
            return t
        s, w = INT_TYPES[ty]
        q, r = self.divmod_pow2(st, t if not s else t + (1 << (w - 1)), w)
        return r if not s else r - (1 << (w - 1))

    def divmod_pow2(self, st, t, k):
        """floor division of term t by 2^k via a fresh (q, r) pair, cached"""
        if k == 0:
            return t, 0
        if is_conc(t):
            return t >> k, t & ((1 << k) - 1)
        sp = st.tags.get(("split", t.get_id()))
        if sp is not None and k >= sp[1]:
            # t = hi * 2^lo_bits + lo with 0 <= lo < 2^lo_bits and hi concrete (registered by the driver)
            _, lo_bits, hi, lo = sp
            d = k - lo_bits
            return hi >> d, T.add(T.mul(hi & ((1 << d) - 1), 1 << lo_bits), lo)
        key = ("p2", t.get_id(), k)
        if key in st.divcache:
            return st.divcache[key][:2]
        q = T.fresh_int("q2")
        r = T.fresh_int("r2")
        st.define((q, r), (t == q * (1 << k) + r, z3.And(r >= 0, r < (1 << k))))
        st.divcache[key] = (q, r, t)
        return q, r

    def tdivmod(self, st, a, b, ty):
        """truncated division (Rust `/`, `%`) with shared fresh (q, r)"""
        if is_conc(a) and is_conc(b):
            if b == 0:
                raise Unsupported("division by concrete zero reached")
            return T.tdiv_c(a, b)
        key = ("d", T.term_id(a), T.term_id(b))
        if key in st.divcache:
            return st.divcache[key][:2]
        q = T.fresh_int("q")
        r = T.fresh_int("r")
        signed = INT_TYPES[ty][0]
        A, Bt = T.I(a), T.I(b)
        cs = [A == q * Bt + r]
        if not signed:
            cs.append(z3.And(r >= 0, r < Bt))
            cs.append(q >= 0)
        elif is_conc(b):
            ab = abs(b)
            ka = st.known(A >= 0)
            if ka is True:
                cs.append(z3.And(r >= 0, r < ab))
            elif ka is False:
                cs.append(z3.And(r <= 0, r > -ab))
            else:
                cs.append(z3.If(A >= 0, z3.And(r >= 0, r < ab), z3.And(r <= 0, r > -ab)))
        else:
            absb = z3.If(Bt >= 0, Bt, -Bt)
            cs.append(z3.If(A >= 0, r >= 0, r <= 0))
            cs.append(z3.And(r < absb, r > -absb))
        st.define((q, r), cs, heavy=not is_conc(b))
        st.divcache[key] = (q, r, a, b)
        st.divlog.append((a, b, q, r))
        return q, r

    def binop(self, st, fr, op, a, b):
        if isinstance(a, (bool, z3.BoolRef)) or isinstance(b, (bool, z3.BoolRef)):
            if op == "BitAnd":
                return T.band(a, b)
            if op == "BitOr":
                return T.bor(a, b)
            if op == "BitXor":
                return T.bxor(a, b)
            if op == "Eq":
                return T.bnot(T.bxor(a, b))
            if op == "Ne":
                return T.bxor(a, b)
            raise Unsupported("bool binop %s" % op)
        if isinstance(a, EnumV) and isinstance(b, EnumV) and op in ("Eq", "Ne"):
            r = (a.variant == b.variant)
            return r if op == "Eq" else not r
        if isinstance(a, FV) and isinstance(b, FV) and op in ("Eq", "Ne", "Lt", "Le", "Gt", "Ge") and a.bits is not None and b.bits is not None:
            # IEEE comparison on the bit patterns: NaN compares false (true for Ne); otherwise order of the sign-magnitude keys, -0 == +0
            from . import builtins as _BI
            _BI._use("float comparison on bit patterns (sign-magnitude key, NaN unordered)")
            ka, na = self.float_key(st, a)
            kb, nb = self.float_key(st, b)
            nan = T.bor(na, nb)
            if op == "Ne":
                return T.bor(nan, T.cmp("Ne", ka, kb))
            return T.band(T.bnot(nan), T.cmp(op, ka, kb))
        if isinstance(a, FV) and isinstance(b, FV) and op in ("Add", "Sub", "Mul", "Div") and a.ty == b.ty:
            from . import builtins as _BI
            if a.bits is not None and b.bits is not None and is_conc(a.bits) and is_conc(b.bits):
                _BI._use("float +, -, *, / on concrete operands (host IEEE arithmetic, round to nearest even)")
                return FV(float_arith(op, int(a.bits), int(b.bits), a.ty), a.ty)
            # symbolic: z3's floating-point theory on the operands' bit patterns / integer sources (round to nearest even); the result is a
            # fresh bit-pattern integer tied to the FP term -- decidable in principle, often slow: a timeout ends inconclusive
            _BI._use("float +, -, *, / on symbolic operands through z3's FP theory (RNE)")
            sort = z3.Float64() if a.ty == "f64" else z3.Float32()
            w = 64 if a.ty == "f64" else 32

            def fp(x):
                if x.bits is not None:
                    return z3.fpBVToFP(z3.Int2BV(T.I(x.bits), w), sort)
                if x.src and x.src[0] == "int_to_float":
                    return z3.fpToFP(z3.RNE(), z3.ToReal(T.I(x.src[1])), sort)
                raise Unsupported("float operand without bit pattern")
            fa, fb = fp(a), fp(b)
            r = {"Add": z3.fpAdd, "Sub": z3.fpSub, "Mul": z3.fpMul, "Div": z3.fpDiv}[op](z3.RNE(), fa, fb)
            res = T.fresh_int("fbits")
            st.define([res], [res == z3.BV2Int(z3.fpToIEEEBV(r), False), res >= 0, res < (1 << w)], heavy=True)
            return FV(res, a.ty)
        if not (isinstance(a, IV) and isinstance(b, IV)):
            raise Unsupported("binop %s on %r, %r" % (op, a, b))
        ty = a.ty
        if op in ("Eq", "Ne", "Lt", "Le", "Gt", "Ge"):
            return T.cmp(op, a.t, b.t)
        if op == "Cmp":
            return ("cmp3", a, b)
        if op in ("AddWithOverflow", "SubWithOverflow", "MulWithOverflow"):
            ex = {"A": T.add, "S": T.sub, "M": T.mul}[op[0]](a.t, b.t)
            flag = T.bnot(T.in_range(ex, ty))
            return OvfT(ex, ty, flag)
        if op in ("Add", "Sub", "Mul", "AddUnchecked", "SubUnchecked", "MulUnchecked"):
            fnop = {"A": T.add, "S": T.sub, "M": T.mul}[op[0]]
            ex = fnop(a.t, b.t)
            if op.endswith("Unchecked"):
                return IV(ex, ty)
            if a.ex is not None or b.ex is not None:
                ex = fnop(a.ex if a.ex is not None else a.t, b.ex if b.ex is not None else b.t)
            w = self.wrap(st, ex, ty)
            return IV(w, ty, ex=None if w is ex else ex)
        if op in ("Div", "Rem"):
            q, r = self.tdivmod(st, a.t, b.t, ty)
            if op == "Div":
                # i128::MIN / -1 is guarded by rustc's assert; result fits otherwise
                return IV(q, ty)
            return IV(r, ty)
        if op in ("Shl", "Shr", "ShlUnchecked", "ShrUnchecked"):
            w = INT_TYPES[ty][1]
            k = self.conc(st, b.t, "shift")
            if not op.endswith("Unchecked"):
                k = k % w
            if op.startswith("Shl"):
                ex = T.mul(a.t, 1 << k)
                if a.ub is not None and a.ub + k <= w and not INT_TYPES[ty][0]:
                    return IV(ex, ty, tz=k + a.tz, ub=a.ub + k)
                return IV(self.wrap(st, ex, ty), ty, tz=k + a.tz)
            q, _ = self.divmod_pow2(st, a.t, k)
            ub = None
            if not INT_TYPES[ty][0]:
                ub = (a.ub if a.ub is not None else w) - k
                ub = max(ub, 0)
            return IV(q, ty, ub=ub)
        if op in ("BitAnd", "BitOr", "BitXor"):
            return self.bitop(st, op, a, b)
        raise Unsupported("binop %s" % op)

    def float_key(self, st, f):
        """(key, is_nan): key orders all non-NaN floats of the type like their values (sign-magnitude, both zeros map to 0)"""
        fb, eb = (52, 11) if f.ty == "f64" else (23, 8)
        w = fb + eb
        sgn, mag = self.divmod_pow2(st, f.bits, w)
        nan = T.lt(((1 << eb) - 1) << fb, mag)
        neg = T.eq(sgn, 1)
        return T.ite(neg, T.neg(mag), mag), nan

    def bitop(self, st, op, a, b):
        ty = a.ty
        signed, w = INT_TYPES[ty]
        if is_conc(a.t) and is_conc(b.t):
            x, y = a.t & ((1 << w) - 1), b.t & ((1 << w) - 1)
            r = {"BitAnd": x & y, "BitOr": x | y, "BitXor": x ^ y}[op]
            return IV(T.wrap_c(r, ty), ty)
        if op == "BitAnd":
            if is_conc(a.t):
                a, b = b, a
            if is_conc(b.t) and not signed or (is_conc(b.t) and b.t >= 0 and (b.t.bit_length() < w or self.proves(st, a.t >= 0))):
                # (signed operand, non-negative mask below the sign bit: the low bits of a two's complement value are its floor residue)
                mask = b.t
                if mask == 0:
                    return IV(0, ty)
                lo = (mask & -mask).bit_length() - 1
                hi = mask.bit_length()
                if mask == (1 << hi) - (1 << lo):
                    # contiguous ones [lo, hi)
                    x = a.t
                    aub = a.ub if a.ub is not None else w
                    if hi >= aub:
                        if lo == 0:
                            return IV(x, ty, ub=a.ub)
                        q, _ = self.divmod_pow2(st, x, lo)
                        return IV(T.mul(q, 1 << lo), ty, tz=lo, ub=a.ub)
                    _, r = self.divmod_pow2(st, x, hi)
                    if lo == 0:
                        return IV(r, ty, ub=hi)
                    q, _ = self.divmod_pow2(st, r, lo)
                    return IV(T.mul(q, 1 << lo), ty, tz=lo, ub=hi)
            # small symbolic & symbolic: via bit-vectors when narrow
            return self.bv_bitop(st, op, a, b)
        if op == "BitOr":
            for x, y in ((a, b), (b, a)):
                yub = self.upper_bits(st, y)
                xtz = x.tz
                if is_conc(x.t) and x.t > 0:
                    xtz = (x.t & -x.t).bit_length() - 1
                if yub is not None and xtz >= yub:
                    xub = self.upper_bits(st, x)
                    return IV(T.add(x.t, y.t), ty, tz=min(x.tz, y.tz) if False else 0,
                              ub=max(xub, yub) if xub is not None else None)
            # x | b with b in {0,1}
            for x, y in ((a, b), (b, a)):
                if y.ub == 1:
                    _, r0 = self.divmod_pow2(st, x.t, 1)
                    return IV(T.ite(T.eq(y.t, 0), x.t, T.add(T.sub(x.t, r0), 1)), ty, ub=x.ub)
            # try solver-proved disjointness using y's concrete trailing zeros
            for x, y in ((a, b), (b, a)):
                if y.tz > 0 and self.proves(st, z3.And(T.I(x.t) >= 0, T.I(x.t) < (1 << y.tz))):
                    return IV(T.add(x.t, y.t), ty)
            return self.bv_bitop(st, op, a, b)
        return self.bv_bitop(st, op, a, b)

    def upper_bits(self, st, x):
        if x.ub is not None:
            return x.ub
        if is_conc(x.t):
            return max(x.t.bit_length(), 0) if x.t >= 0 else None
        return None

    def bv_bitop(self, st, op, a, b):
        ty = a.ty
        signed, w = INT_TYPES[ty]
        if w > 64 and op == "BitXor" and signed:
            # sign-only over-approximation (sound for proving: strictly more behaviours; a counterexample that depends on the
            # unconstrained magnitude does not replay and ends inconclusive): the result is some value of the type whose sign bit is
            # the xor of the operands' sign bits -- enough for the `(a ^ b) < 0` "signs differ" idiom
            from . import builtins as _BI
            _BI._use("BitXor on 128-bit signed operands: over-approximated, only the sign bit is modelled")
            res = T.fresh_int("xor")
            lo, hi = ty_range(ty)
            st.defs.append(z3.And(res >= lo, res <= hi, (res < 0) == ((T.I(a.t) < 0) != (T.I(b.t) < 0))))
            return IV(res, ty)
        if w > 64:
            raise Unsupported("symbolic %s on %s-bit values (%s, %s)" % (op, w, a.t, b.t))
        x = z3.Int2BV(T.I(a.t), w)
        y = z3.Int2BV(T.I(b.t), w)
        r = {"BitAnd": x & y, "BitOr": x | y, "BitXor": x ^ y}[op]
        res = T.fresh_int("bv")
        st.defs.append(res == z3.BV2Int(r, signed))
        self.count("bv_ops")
        return IV(res, ty)

    def cast(self, st, fr, v, ty, kind):
        ty = norm_type(apply_subst(ty, fr.subst))
        if kind.startswith("IntToInt"):
            if isinstance(v, (bool, z3.BoolRef)):
                return IV(T.ite(v, 1, 0), ty, ub=1)
            if isinstance(v, EnumV):
                return IV(enum_discr(v), ty)
            if ty not in INT_TYPES:
                raise Unsupported("cast to %s" % ty)
            lo, hi = ty_range(ty)
            slo, shi = ty_range(v.ty)
            if lo <= slo and shi <= hi:
                return IV(v.t, ty, tz=v.tz, ub=v.ub)
            if v.ub is not None and (1 << v.ub) - 1 <= hi and not INT_TYPES[v.ty][0]:
                return IV(v.t, ty, tz=v.tz, ub=v.ub)
            return IV(self.wrap(st, v.t, ty), ty)
        if kind.startswith("IntToFloat"):
            if is_conc(v.t):
                return FV(int_to_float_bits(int(v.t), ty), ty)
            return FV(None, ty, ("int_to_float", v.t, v.ty))
        if kind.startswith("FloatToInt") and isinstance(v, FV) and v.bits is not None and ty in INT_TYPES:
            # `f as iN/uN`: truncation towards zero, saturating at the target's bounds, NaN -> 0 (exponent field must be concrete)
            from . import builtins as _BI
            _BI._use("float-to-int `as` cast on the bit pattern (truncating, saturating, NaN -> 0; concrete exponent field)")
            fb, eb, bias = (52, 11, 1023) if v.ty == "f64" else (23, 8, 127)
            q, frac = self.divmod_pow2(st, v.bits, fb)
            sgn, expo = self.divmod_pow2(st, q, eb)
            e = self.conc(st, expo, "float exponent field")
            neg = T.eq(sgn, 1)
            lo, hi = ty_range(ty)
            if e == (1 << eb) - 1:
                return IV(T.ite(T.eq(frac, 0), T.ite(neg, lo, hi), 0), ty)
            mant = frac if e == 0 else T.add(frac, 1 << fb)
            sh = max(e, 1) - bias - fb
            if sh >= 0:
                mag = T.mul(mant, 1 << sh)
            else:
                mag = self.divmod_pow2(st, mant, -sh)[0] if -sh <= fb + 1 else 0
            val = T.ite(neg, T.neg(mag), mag)
            return IV(T.ite(T.lt(val, lo), lo, T.ite(T.lt(hi, val), hi, val)), ty)
        if kind.startswith("PointerCoercion") or kind in ("PtrToPtr", "Transmute", "PointerExposeProvenance"):
            if isinstance(v, PtrV):
                m = re.match(r"^\*(?:const|mut) (\w+)$", ty)
                return PtrV(v.slice, m.group(1) if m else v.elem)
            return v
        raise Unsupported("cast kind %s" % kind)

    def eval_rvalue(self, st, fr, rv):
        k = rv[0]
        if k == "use":
            return self.eval_operand(st, fr, rv[1])
        if k == "binop":
            a = self.eval_operand(st, fr, rv[2])
            b = self.eval_operand(st, fr, rv[3])
            return self.binop(st, fr, rv[1], a, b)
        if k == "unop":
            a = self.eval_operand(st, fr, rv[2])
            if rv[1] == "Not":
                if isinstance(a, (bool, z3.BoolRef)):
                    return T.bnot(a)
                s, w = INT_TYPES[a.ty]
                return IV(T.sub(-1, a.t) if s else T.sub((1 << w) - 1, a.t), a.ty)
            if rv[1] == "Neg":
                lo, _ = ty_range(a.ty)
                if is_conc(a.t):
                    return IV(T.wrap_c(-a.t, a.ty), a.ty)
                c = (a.t == lo)
                if c.get_id() in st.false_ids or self.proves(st, a.t != lo):
                    return IV(-a.t, a.ty)
                return IV(z3.If(c, z3.IntVal(lo), -a.t), a.ty)
            if rv[1] == "PtrMetadata":
                if isinstance(a, SliceV):
                    return IV(a.len, "usize")
                if isinstance(a, StrV):
                    return IV(len(a.s), "usize")
            raise Unsupported("unop %s on %r" % (rv[1], a))
        if k == "cast":
            return self.cast(st, fr, self.eval_operand(st, fr, rv[1]), rv[2], rv[3])
        if k == "ref":
            pl = rv[2]
            return self.make_ref(st, fr, pl)
        if k == "discr":
            v = self.read_place(st, fr, rv[1])
            if isinstance(v, EnumV):
                return IV(enum_discr(v), "isize")
            raise Unsupported("discriminant of %r" % (v,))
        if k == "tuple":
            return Agg("tuple", [self.eval_operand(st, fr, o) for o in rv[1]])
        if k == "array":
            return Agg("array", [self.eval_operand(st, fr, o) for o in rv[1]])
        if k == "repeat":
            v = self.eval_operand(st, fr, rv[1])
            n = self.eval_const(st, fr, rv[2]) if not rv[2].isdigit() else IV(int(rv[2]), "usize")
            return Agg("array", [v] * int(n.t))
        if k == "closure":
            return Agg("closure:" + norm_type(rv[1]), [self.eval_operand(st, fr, o) for o in rv[2]])
        if k == "adt":
            return self.make_adt(st, fr, rv)
        if k == "len":
            v = self.read_place(st, fr, rv[1])
            if isinstance(v, Agg):
                return IV(len(v.fields), "usize")
            if isinstance(v, SliceV):
                return IV(v.len, "usize")
            raise Unsupported("Len of %r" % (v,))
        if k == "nullop":
            sizes = {"u8": 1, "u16": 2, "u32": 4, "u64": 8, "u128": 16, "usize": 8}
            ty = norm_type(apply_subst(rv[2], fr.subst))
            if rv[1] == "SizeOf" and ty in sizes:
                return IV(sizes[ty], "usize")
            raise Unsupported("nullop %r" % (rv,))
        if k == "tlsref":
            return RefV(box=("tls", rv[1]))
        raise Unsupported("rvalue %r" % (rv,))

    def make_ref(self, st, fr, pl):
        # &(*_1) re-borrow: resolve the deref chain to the underlying target
        v_local = fr.locals.get(pl.local)
        proj = list(pl.proj)
        base = RefV(fr.uid, pl.local, ())
        i = 0
        cur = base
        while i < len(proj):
            p = proj[i]
            if p[0] == "deref":
                tgt = self.read_ref(st, cur)
                if isinstance(tgt, (SliceV, StrV, PtrV, Opaque)):
                    return tgt
                if not isinstance(tgt, RefV):
                    raise Unsupported("re-borrow through non-ref %r" % (tgt,))
                cur = tgt
            elif p[0] == "index":
                idxv = self.read_local(st, fr, p[1])
                cur = RefV(cur.fuid, cur.local, cur.proj + (("cindex", self.conc(st, idxv.t, "index"), False),), cur.box)
            else:
                cur = RefV(cur.fuid, cur.local, cur.proj + (p,), cur.box)
            i += 1
        return cur

    def make_adt(self, st, fr, rv):
        path, form, ops, names = rv[1], rv[2], rv[3], rv[4]
        path = apply_subst(path, fr.subst)
        vals = [self.eval_operand(st, fr, o) for o in ops]
        # strip generic args
        p2 = re.sub(r"::<.*?>(?=::|$)", "", path)
        segs = [s for s in p2.split("::") if s]
        if len(segs) >= 2 and segs[-2] in self.prog.enums and segs[-1] in self.prog.enums[segs[-2]]:
            return EnumV(segs[-2], self.prog.enums[segs[-2]].index(segs[-1]), vals)
        if len(segs) == 1:
            owners = [e for e, vs in self.prog.enums.items() if segs[0] in vs]
            if len(owners) > 1:
                hint = norm_type(apply_subst(fr.fn.locals.get(getattr(self, "_dest_local", ""), ""), fr.subst))
                owners = [e for e in owners if re.search(r"\b%s\b" % e, hint)] or owners
            if len(owners) == 1:
                return EnumV(owners[0], self.prog.enums[owners[0]].index(segs[0]), vals)
            if len(owners) > 1:
                raise Unsupported("ambiguous bare variant %s" % segs[0])
        if segs[-1] in self.prog.enums and form == "unit":
            raise Unsupported("enum without variant: %s" % path)
        return Agg("struct:" + segs[-1], vals)

    # ---- statements / terminators ------------------------------------------
    def explore(self, st0):
        """run st0 to completion; returns list of Outcome"""
        work = [st0]
        outs = []
        parked = {}
        npaths = 0
        while work or parked:
            if not work:
                # merge one bucket
                key = sorted(parked.keys())[0]
                sts = parked.pop(key)
                merged = self.merge_states(sts)
                hook = self.lemma_hooks.get(Program._last_seg(merged.frames[-1].fn.name))
                if hook is not None:
                    self.apply_lemmas(merged, hook)
                work.append(merged)
                continue
            st = work.pop()
            try:
                res = self.run(st, parked)
            except Infeasible:
                continue
            if res is None:
                continue
            if isinstance(res, Outcome):
                outs.append(res)
                npaths += 1
                if npaths > self.max_paths:
                    raise Unsupported("path explosion (> %d paths)" % self.max_paths)
            else:
                work.extend(res)
        return outs

    def explore_barrier(self, st0):
        sub = self
        saved = st0.tags.get("barrier")
        outs = self.explore(st0)
        return outs

    def loop_headers(self, fn):
        succ = {bb: _successors(parse_terminator(term)) for bb, (stmts, term) in fn.blocks.items()}
        color, heads = {}, []

        def dfs(u):
            color[u] = 1
            for v in succ.get(u, ()):
                if color.get(v) == 1:
                    if v not in heads:
                        heads.append(v)
                elif v not in color:
                    dfs(v)
            color[u] = 2
        dfs("bb0")
        return heads

    def cut_block(self, fn, cut):
        if cut.bb is None:
            heads = self.loop_headers(fn)
            if len(heads) != 1:
                raise Unsupported("cut: %s has %d loop headers" % (fn.name, len(heads)))
            cut.bb = heads[0]
        return cut.bb

    def do_cut(self, st, fr, cut, visit):
        """loop cut: prove the invariant for the current state, then forget the history and continue from an
        arbitrary state satisfying it (sound over-approximation).  mode 'unroll': at every visit, with the visit
        index concrete; mode 'inductive': first visit = base case + havoc, second visit = preservation, path ends."""
        def cur(name, which=-1):
            return self.local_by_name(st, fr, name, which)
        if "base" not in st.tags:
            raise Unsupported("cut without marked inputs")
        try:
            vals = {n: cur(n) for n in cut.havoc}
            consts = {n: cur(n) for n in cut.keep}
        except Exception as e:
            self.cut_log.append(("cut skipped: %s" % e, visit))
            return None
        allv = dict(consts)
        allv.update(vals)
        formulas = cut.invariant({k: v.t for k, v in allv.items()}, visit, st)
        ok = True
        for name, fml in formulas:
            if isinstance(fml, bool):
                if fml:
                    continue
                ok = False
                break
            s = z3.Solver()
            s.set("timeout", self.lemma_timeout_ms)
            for c in st.pruned_constraints(fml):
                s.add(c)
            s.add(z3.Not(fml))
            t0 = time.time()
            r = s.check()
            self.count("cut_queries")
            self.cut_log.append((name, visit, str(r), round(time.time() - t0, 2)))
            if os.environ.get("VERIF_DEBUG_CUTS"):
                print("CUT", name, visit, r, round(time.time() - t0, 2), flush=True)
            if r != z3.unsat:
                ok = False
                st.tags.setdefault("cut_failed", []).append((name, visit, str(r)))
                break
        if cut.mode == "inductive" and visit >= 1:
            # preservation step done (or failed): this path ends here
            if not ok:
                return Outcome("panic", None, st, "CUT: invariant not preserved: %s" % (st.tags.get("cut_failed"),))
            if cut.variant is not None:
                pass
            return Outcome("cutclosed", None, st, "invariant preserved")
        if not ok:
            if cut.mode == "inductive":
                return Outcome("panic", None, st, "CUT: invariant does not hold on entry: %s" % (st.tags.get("cut_failed"),))
            return None          # fall back to plain unrolling for this path
        # havoc
        base_defs, base_true, base_false, base_groups = st.tags["base"]
        st.defs = list(base_defs)
        st.pc = []
        st.true_ids = dict(base_true)
        st.false_ids = dict(base_false)
        st.groups = list(base_groups)
        st.divcache = {}
        st.divlog = []
        st.conc = {}
        st.tags["feas_unknowns"] = 0
        newvals = dict((k, v.t) for k, v in consts.items())
        for n, v in vals.items():
            fv = T.fresh_int("h_" + n)
            lo, hi = ty_range(v.ty)
            st.defs.append(z3.And(fv >= lo, fv <= hi))
            newvals[n] = fv
            loc = fr.fn.debug[n][-1]
            old = fr.locals[loc]
            if isinstance(old, RefV):
                self.write_ref(st, old, IV(fv, v.ty))
            else:
                fr.locals[loc] = IV(fv, v.ty)
        for name, fml in cut.invariant(newvals, visit, st):
            if not isinstance(fml, bool):
                st.defs.append(fml)
        st.tags["cut_visits"] = st.tags.get("cut_visits", 0) + 1
        if cut.assume_after is not None:
            st.assume_def(cut.assume_after(newvals))
        if cut.mode == "inductive":
            st.tags["cut_pre"] = dict(newvals)
        self.count("cuts")
        return None

    def apply_lemmas(self, st, hook):
        """prove intermediate lemmas at a merge point and add the proven ones as assumptions"""
        fr = st.frames[-1]
        try:
            lemmas = hook(self, st, fr)
        except Exception as e:      # a changed function body may not have the expected locals
            self.lemma_log.append(("hook failed: %s" % e, "skipped", 0.0))
            return
        for name, formula in lemmas:
            t0 = time.time()
            s = z3.Solver()
            s.set("timeout", self.lemma_timeout_ms)
            for c in st.pruned_constraints(formula):
                s.add(c)
            s.add(z3.Not(formula))
            r = s.check()
            dt = time.time() - t0
            self.lemma_log.append((name, str(r), round(dt, 2)))
            self.count("lemma_queries")
            if r == z3.unsat:
                st.defs.append(formula)
                self.count("lemmas_proved")

    def local_by_name(self, st, fr, name, which=-1):
        locs = fr.fn.debug.get(name)
        if not locs:
            raise Unsupported("no local named %s in %s" % (name, fr.fn.name))
        v = fr.locals[locs[which]]
        while isinstance(v, RefV):
            v = self.read_ref(st, v)
        return v

    def merge_points(self, fn):
        if fn.name in self._merge_points:
            return self._merge_points[fn.name]
        pts = set()
        if Program._last_seg(fn.name) in self.merge_fns:
            succ = {}
            for bb, (stmts, term) in fn.blocks.items():
                succ[bb] = _successors(parse_terminator(term))
            # back edges by DFS
            color = {}
            back = []

            def dfs(u):
                color[u] = 1
                for v in succ.get(u, ()):
                    if color.get(v) == 1:
                        back.append((u, v))
                    elif v not in color:
                        dfs(v)
                color[u] = 2
            dfs("bb0")
            preds = {}
            for u, vs in succ.items():
                for v in vs:
                    preds.setdefault(v, set()).add(u)
            for (u, h) in back:
                # natural loop of back edge u->h
                loop = {h, u}
                stack = [u]
                while stack:
                    x = stack.pop()
                    if x == h:
                        continue
                    for p in preds.get(x, ()):
                        if p not in loop:
                            loop.add(p)
                            stack.append(p)
                for x in loop:
                    for v in succ.get(x, ()):
                        if v not in loop:
                            t = parse_terminator(fn.blocks[v][1])
                            # skip panic blocks
                            if t[0] == "call" and t[4] is None:
                                continue
                            pts.add(v)
        self._merge_points[fn.name] = pts
        return pts

    def merge_states(self, sts):
        if len(sts) == 1:
            return sts[0]
        self.count("merges")
        base = sts[0].copy()
        # common prefix of constraints
        guards = []
        n_common_pc = _common_prefix([s.pc for s in sts])
        n_common_defs = _common_prefix([s.defs for s in sts])
        for s in sts:
            rest = s.pc[n_common_pc:]
            guards.append(T.band(*rest) if rest else True)
        base.pc = sts[0].pc[:n_common_pc]
        base.defs = sts[0].defs[:n_common_defs]
        for s, g in zip(sts, guards):
            for d in s.defs[n_common_defs:]:
                base.defs.append(d)      # definitions of fresh symbols are unconditional
        disj = T.bor(*guards)
        if not isinstance(disj, bool):
            base.pc.append(disj)
        base.false_ids = {k: v for k, v in sts[0].false_ids.items() if all(k in s.false_ids for s in sts[1:])}
        base.true_ids = {k: v for k, v in sts[0].true_ids.items() if all(k in s.true_ids for s in sts[1:])}
        base.divcache = {}
        for k in sts[0].divcache:
            if all(k in s.divcache and s.divcache[k][0] is sts[0].divcache[k][0] for s in sts[1:]):
                base.divcache[k] = sts[0].divcache[k]
        # merge frames
        for fi in range(len(base.frames)):
            fr = base.frames[fi]
            keys = set(fr.locals.keys())
            for s in sts[1:]:
                keys &= set(s.frames[fi].locals.keys())
            newlocals = {}
            for kname in keys:
                vals = [s.frames[fi].locals[kname] for s in sts]
                newlocals[kname] = self.merge_values(vals, guards)
            fr.locals = newlocals
        return base

    def merge_values(self, vals, guards):
        v0 = vals[0]
        if all(v is v0 for v in vals[1:]):
            return v0
        if isinstance(v0, IV):
            if all(isinstance(v, IV) and T.term_id(v.t) == T.term_id(v0.t) for v in vals[1:]):
                return v0
            t = vals[-1].t
            for v, g in zip(reversed(vals[:-1]), reversed(guards[:-1])):
                t = T.ite(g, v.t, t)
            ub = None
            if all(v.ub is not None for v in vals):
                ub = max(v.ub for v in vals)
            return IV(t, v0.ty, tz=min(v.tz for v in vals), ub=ub)
        if isinstance(v0, (bool, z3.BoolRef)):
            t = vals[-1]
            for v, g in zip(reversed(vals[:-1]), reversed(guards[:-1])):
                t = T.ite(g, v, t)
            return t
        if isinstance(v0, Agg) and all(isinstance(v, Agg) and len(v.fields) == len(v0.fields) for v in vals):
            return Agg(v0.kind, [self.merge_values([v.fields[i] for v in vals], guards)
                                 for i in range(len(v0.fields))])
        if isinstance(v0, OvfT):
            return OvfT(self.merge_values([IV(v.exact, v.ty) for v in vals], guards).t, v0.ty,
                        self.merge_values([v.flag for v in vals], guards))
        if isinstance(v0, RefV) and all(isinstance(v, RefV) and (v.fuid, v.local, v.proj, v.box) ==
                                        (v0.fuid, v0.local, v0.proj, v0.box) for v in vals):
            return v0
        if isinstance(v0, EnumV) and all(isinstance(v, EnumV) and v.variant == v0.variant for v in vals):
            return EnumV(v0.ty, v0.variant, [self.merge_values([v.fields[i] for v in vals], guards)
                                             for i in range(len(v0.fields))])
        if v0 is None and all(v is None for v in vals):
            return None
        raise Unsupported("cannot merge values %r" % (vals,))

    def run(self, st, parked):
        """execute until the path ends (Outcome), forks (list of states) or parks (None)"""
        while True:
            if "finish_panic" in st.tags:
                return Outcome("panic", None, st, st.tags.pop("finish_panic"))
            fr = st.frames[-1]
            fn = fr.fn
            stmts, term = fn.blocks[fr.bb]
            if fr.idx == 0 and not fr.entered:
                fr.entered = True
                self.stats["blocks"] = self.stats.get("blocks", 0) + 1
                mp = self.merge_points(fn) if self.merge_fns else ()
                if fr.bb in mp and not st.tags.get(("merged", fr.uid, fr.bb)):
                    st.tags[("merged", fr.uid, fr.bb)] = True
                    parked.setdefault((len(st.frames), fn.name, int(fr.bb[2:])), []).append(st)
                    return None
                n = fr.visits.get(fr.bb, 0) + 1
                fr.visits[fr.bb] = n
                cut = self.cuts.get(Program._last_seg(fn.name)) if self.cuts else None
                if cut is not None and fr.bb == self.cut_block(fn, cut):
                    r = self.do_cut(st, fr, cut, n - 1)
                    if r is not None:
                        return r
                if n > self.unwind:
                    return Outcome("panic", None, st, "UNWIND: loop bound %d exceeded in %s %s" % (self.unwind, fn.name, fr.bb))
            try:
                while fr.idx < len(stmts):
                    self.exec_stmt(st, fr, parse_statement(stmts[fr.idx]))
                    fr.idx += 1
                res = self.exec_term(st, fr, parse_terminator(term))
            except Fork as f:
                return self.do_fork(st, f)
            if res is not None:
                return res

    def do_fork(self, st, f):
        alts = f.alts
        if len(alts) == 1 and isinstance(alts[0][0], str) and alts[0][0] == "enum":
            _, term, what = alts[0]
            # enumerate feasible concrete values of `term`
            vals = self.enumerate_values(st, term, what)
            out = []
            for v in vals:
                s2 = st.copy()
                s2.pc.append(term == v)
                s2.conc[term.get_id()] = v
                s2.tags[("keep", term.get_id())] = term
                out.append(s2)
            return out
        out = []
        for cond, fix in alts:
            if isinstance(cond, bool):
                if not cond:
                    continue
            elif f.check and not self.feasible(st, cond):
                continue
            s2 = st.copy()
            try:
                s2.assume(cond)
            except Infeasible:
                continue
            if fix is not None:
                fix(s2)
            out.append(s2)
        return out

    def enumerate_values(self, st, term, what, limit=300):
        s = z3.Solver()
        s.set("timeout", 5000)
        for c in st.constraints():
            s.add(c)
        vals = []
        while True:
            r = s.check()
            if r == z3.unsat:
                break
            if r == z3.unknown:
                raise Unsupported("cannot enumerate values of %s (%s): solver unknown" % (term, what))
            v = s.model().eval(term, model_completion=True).as_long()
            vals.append(v)
            s.add(term != v)
            if len(vals) > limit:
                raise Unsupported("more than %d values for %s (%s)" % (limit, term, what))
        self.count("enum_forks")
        return sorted(vals)

    def exec_stmt(self, st, fr, s):
        k = s[0]
        if k == "nop":
            return
        if k == "assign":
            self._dest_local = s[1].local
            val = self.eval_rvalue(st, fr, s[2])
            if s[2][0] == "discr" and not s[1].proj:
                dty = norm_type(fr.fn.locals.get(s[1].local, "isize"))
                if dty in INT_TYPES:
                    val = IV(val.t, dty)
            if isinstance(val, tuple) and val and val[0] == "cmp3":
                _, a, b = val
                raise Fork([(T.lt(a.t, b.t), lambda s2, pl=s[1], u=fr.uid: self._set(s2, u, pl, EnumV("Ordering", 0))),
                            (T.eq(a.t, b.t), lambda s2, pl=s[1], u=fr.uid: self._set(s2, u, pl, EnumV("Ordering", 1))),
                            (T.lt(b.t, a.t), lambda s2, pl=s[1], u=fr.uid: self._set(s2, u, pl, EnumV("Ordering", 2)))])
            self.write_place(st, fr, s[1], val)
            return
        if k == "setdiscr":
            raise Unsupported("SetDiscriminant")
        if k == "assume":
            c = self.eval_operand(st, fr, s[1])
            st.assume(c)
            return
        raise Unsupported("statement %r" % (s,))

    def _set(self, st, fuid, pl, val, advance=True):
        fr = st.frame(fuid)
        self.write_place(st, fr, pl, val)
        if advance:
            fr.idx += 1

    def goto(self, st, fr, bb):
        fr.bb = bb
        fr.idx = 0
        fr.entered = False

    def exec_term(self, st, fr, t):
        k = t[0]
        if k == "goto":
            self.goto(st, fr, t[1])
            return None
        if k == "return":
            return self.do_return(st, fr)
        if k == "switch":
            v = self.eval_operand(st, fr, t[1])
            return self.do_switch(st, fr, v, t[2], t[3])
        if k == "assert":
            c = self.eval_operand(st, fr, t[1])
            ok = c if t[2] else T.bnot(c)
            if isinstance(ok, bool):
                if ok:
                    self.goto(st, fr, t[4])
                    return None
                return Outcome("panic", None, st, "assert: " + t[3])
            raise Fork([(ok, lambda s2, bb=t[4], u=fr.uid: self.goto(s2, s2.frame(u), bb)),
                        (T.bnot(ok), lambda s2, msg="assert: " + t[3]: s2.tags.__setitem__("finish_panic", msg))])
        if k == "unreachable":
            raise Unsupported("reached `unreachable` in %s %s" % (fr.fn.name, fr.bb))
        if k == "call":
            return self.do_call(st, fr, t)
        if k == "resume":
            raise Unsupported("resume")
        raise Unsupported("terminator %r" % (t,))

    def do_switch(self, st, fr, v, targets, other):
        if isinstance(v, (bool, z3.BoolRef)):
            # bool switch: value 0 -> false
            tdict = dict(targets)
            bb_false = tdict.get(0, other)
            bb_true = tdict.get(1, other)
            kn = st.known(v)
            if kn is not None:
                v = kn
            if isinstance(v, bool):
                self.goto(st, fr, bb_true if v else bb_false)
                return None
            alts = []
            for cond, bb in ((v, bb_true), (z3.Not(v), bb_false)):
                alts.append((cond, lambda s2, bb=bb, u=fr.uid: self.goto(s2, s2.frame(u), bb)))
            raise Fork(alts)
        if not isinstance(v, IV):
            raise Unsupported("switchInt on %r" % (v,))
        s_, w = INT_TYPES[v.ty]
        if is_conc(v.t):
            uv = v.t & ((1 << w) - 1)
            for val, bb in targets:
                if val == uv:
                    self.goto(st, fr, bb)
                    return None
            if other is None:
                raise Unsupported("switch without matching target")
            self.goto(st, fr, other)
            return None
        alts = []
        neqs = []
        for val, bb in targets:
            sv = val
            if s_ and val >> (w - 1):
                sv = val - (1 << w)
            c = (v.t == sv)
            neqs.append(v.t != sv)
            alts.append((c, lambda s2, bb=bb, u=fr.uid: self.goto(s2, s2.frame(u), bb)))
        if other is not None:
            alts.append((z3.And(*neqs) if len(neqs) > 1 else neqs[0],
                         lambda s2, bb=other, u=fr.uid: self.goto(s2, s2.frame(u), bb)))
        raise Fork(alts)

    def do_return(self, st, fr):
        val = fr.locals.get("_0", UNIT)
        self.encoded_fns.add(fr.fn.name)
        if len(st.frames) == 1 or st.tags.get("barrier") == len(st.frames):
            return Outcome("return", val, st)
        st.frames.pop()
        caller = st.frames[-1]
        # references into the dead frame must not escape, except re-borrows of caller places
        if isinstance(val, RefV) and val.fuid == fr.uid:
            raise Unsupported("reference to local escapes %s" % fr.fn.name)
        if fr.dest is not None:
            self.write_place(st, caller, fr.dest, val)
        if fr.target is None:
            raise Unsupported("return from diverging call")
        self.goto(st, caller, fr.target)
        return None

    def finish_call(self, st, fr, dest, target, val):
        if dest is not None:
            self.write_place(st, fr, dest, val)
        if target is None:
            raise Unsupported("call without return target returned")
        self.goto(st, fr, target)

    def do_call(self, st, fr, t):
        _, dest, callee, argops, target = t
        if "::Output" in callee and "{" not in callee:
            callee_s = self.prog.resolve_projection(norm_type(apply_subst(callee, fr.subst)))
        elif "::Output" in callee:
            # generic arguments naming a function item (`fn(T) -> <T as Neg>::Output {<T as Neg>::neg}`): norm_type is meant for types
            # and would mangle the path, so only the projections are resolved
            callee_s = self.prog.resolve_projection(apply_subst(callee, fr.subst))
        else:
            callee_s = apply_subst(callee, fr.subst)
        args = [self.eval_operand(st, fr, o) for o in argops]
        last = Program._last_seg(re.sub(r"::<[^<>]*(?:<[^<>]*(?:<[^<>]*>[^<>]*)*>[^<>]*)*>$", "", callee_s))
        last = re.sub(r"::<.*>$", "", last)
        # panics
        pk = self.builtins.panic_kind(self, st, fr, callee_s, args)
        if pk is not None:
            return Outcome("panic", None, st, pk)
        # user-supplied contracts
        if last in self.contracts:
            r = self.contracts[last](self, st, fr, callee_s, args)
            if r is not NotImplemented:
                return self._deliver(st, fr, dest, target, r)
        # local definitions (never for paths into core / std / alloc)
        f = None
        if not re.match(r"^(core|std|alloc)::", callee_s):
            f = self.resolve_local(fr, callee_s, last, argops, dest)
        if f is not None:
            fdef, subst = f
            nf = Frame(st.next_uid, fdef, subst)
            st.next_uid += 1
            for (pname, _), a in zip(fdef.params, args):
                nf.locals[pname] = a
            nf.dest = dest
            nf.target = target
            st.frames.append(nf)
            if len(st.frames) > 60:
                raise Unsupported("call depth")
            return None
        r = self.builtins.call(self, st, fr, callee_s, last, args, argops, dest)
        if r is NotImplemented:
            raise Unsupported("no model for call to %s (args %s)" % (callee_s, [self.static_type(fr, o) for o in argops]))
        return self._deliver(st, fr, dest, target, r)

    def _deliver(self, st, fr, dest, target, r):
        from .builtins import _WithDefs
        if isinstance(r, Outcome):
            if r.state is None:
                r = Outcome(r.kind, r.value, st, r.msg)
            return r
        if isinstance(r, _Alts):
            alts = []
            for alt in r.alts:
                cond, val = alt[0], alt[1]
                extra = alt[2] if len(alt) > 2 else None

                def fix(s2, val=val, u=fr.uid, extra=extra):
                    if extra is not None:
                        extra(s2)
                    self._deliver_alt(s2, u, dest, target, val)
                alts.append((cond, fix))
            raise Fork(alts)
        if isinstance(r, _WithDefs):
            self._deliver_alt(st, fr.uid, dest, target, r)
            return None
        if isinstance(r, _Enter):
            # the model asks to run a local function (closure) in place of the call
            nf = Frame(st.next_uid, r.fn, r.subst)
            st.next_uid += 1
            for (pname, _), a in zip(r.fn.params, r.args):
                nf.locals[pname] = a
            nf.dest = dest
            nf.target = target
            st.frames.append(nf)
            return None
        self.finish_call(st, fr, dest, target, r)
        return None

    def _deliver_alt(self, s2, fuid, dest, target, val):
        from .builtins import _WithDefs
        if isinstance(val, _WithDefs):
            s2.defs.extend(val.defs)
            if val.state is not None:
                s2.obs = list(val.state.obs)
                s2.heap = dict(val.state.heap)
                for k, v in val.state.divcache.items():
                    s2.divcache.setdefault(k, v)
                # effects on caller frames made through references
                for f_old in val.state.frames[:len(s2.frames)]:
                    for i, f_new in enumerate(s2.frames):
                        if f_new.uid == f_old.uid:
                            f_new.locals = dict(f_old.locals)
            val = val.val
        if isinstance(val, Outcome):
            s2.tags["finish_panic"] = val.msg
            return
        self.finish_call(s2, s2.frame(fuid), dest, target, val)

    def resolve_local(self, fr, callee_s, last, argops, dest):
        cands = self.prog.by_last.get(last)
        if not cands:
            return None
        atys = [self.static_type(fr, o) for o in argops]
        rty = None
        if dest is not None and not dest.proj:
            rty = norm_type(apply_subst(fr.fn.locals.get(dest.local, "?"), fr.subst))
        elif dest is not None:
            rty = self.static_type(fr, ("copy", dest))
        good = []
        for f in cands:
            if len(f.params) != len(atys):
                continue
            subst = {}
            ok = True
            for (pn, pty), aty in zip(f.params, atys):
                if aty == "?":
                    continue
                if not unify(pty, aty, subst):
                    ok = False
                    break
            if not ok:
                continue
            if rty is not None and rty != "?" and not _has_generic(f.ret) and "impl " not in f.ret and not (" as " in rty and ">::" in rty):
                if not unify(f.ret, rty, dict(subst)):
                    if not ("<" in f.ret and " as " in f.ret):     # projections like <T as Trait>::Output
                        continue
            good.append((f, subst))
        if len(good) > 1:
            # prefer non-generic exact matches
            exact = [g for g in good if not g[1]]
            if len(exact) >= 1:
                good = exact
        if len(good) > 1:
            # disambiguate by crate prefix / trait self type in the callee text
            good2 = self._disambiguate_fn(callee_s, good)
            if good2:
                good = good2
        if len(good) == 1:
            f, subst = good[0]
            # Self for trait default methods: `<f64 as Float>::from_decimal`
            m = re.match(r"^<(.+?) as ", callee_s)
            if m and "Self" not in subst and _mentions(f, "Self"):
                subst = dict(subst)
                subst["Self"] = norm_type(m.group(1))
            return f, subst
        if len(good) > 1:
            raise Unsupported("ambiguous callee %s: %s" % (callee_s, [g[0].name for g in good]))
        return None

    def _disambiguate_fn(self, callee_s, good):
        out = []
        m = re.match(r"^<(.+?) as (.+)>::\w+$", callee_s)
        if m:
            selfty = norm_type(m.group(1))
            trait = norm_type(m.group(2))
            tname = re.sub(r"<.*", "", trait)
            for f, s in good:
                hdr = self.prog.impl_header(f[0] if isinstance(f, tuple) else f)
                if tname in hdr and re.search(r"for\s+&?%s\b" % re.escape(selfty), hdr):
                    out.append((f, s))
            if out:
                return out
        # module path in front of `<impl ..>`: `binops::cmp::<impl Decimal>::m` vs `cmp::<impl at src/binops/cmp.rs..>::m`
        mm = re.match(r"^((?:\w+::)+)<impl ", callee_s)
        if mm:
            cpre = mm.group(1)
            for f, s in good:
                md = re.match(r"^((?:\w+::)*)<impl ", f.name)
                dpre = md.group(1) if md else None
                if dpre and (cpre.endswith(dpre) or dpre.endswith(cpre)):
                    out.append((f, s))
            if out:
                return out
        crate = callee_s.split("::")[0]
        for f, s in good:
            if crate.replace("_", "-") == f.generic or crate == f.generic.replace("-", "_"):
                out.append((f, s))
        return out


_VARS_CACHE = {}


def interval(t, bnd, depth=0):
    """(lo, hi) of an integer term from the registered variable bounds, or None"""
    if is_conc(t):
        return (int(t), int(t))
    if depth > 40:
        return None
    if z3.is_int_value(t):
        v = t.as_long()
        return (v, v)
    k = t.decl().kind()
    if z3.is_const(t) and k == z3.Z3_OP_UNINTERPRETED:
        return bnd.get(t.get_id(), (None,))[1:] if t.get_id() in bnd else None
    ch = t.children()
    if k == z3.Z3_OP_ADD:
        lo = hi = 0
        for c in ch:
            r = interval(c, bnd, depth + 1)
            if r is None:
                return None
            lo += r[0]
            hi += r[1]
        return (lo, hi)
    if k == z3.Z3_OP_SUB and len(ch) == 2:
        a, b = interval(ch[0], bnd, depth + 1), interval(ch[1], bnd, depth + 1)
        if a is None or b is None:
            return None
        return (a[0] - b[1], a[1] - b[0])
    if k == z3.Z3_OP_UMINUS:
        a = interval(ch[0], bnd, depth + 1)
        return None if a is None else (-a[1], -a[0])
    if k == z3.Z3_OP_MUL and len(ch) == 2:
        a, b = interval(ch[0], bnd, depth + 1), interval(ch[1], bnd, depth + 1)
        if a is None or b is None:
            return None
        ps = [a[0] * b[0], a[0] * b[1], a[1] * b[0], a[1] * b[1]]
        return (min(ps), max(ps))
    if k == z3.Z3_OP_ITE:
        a, b = interval(ch[1], bnd, depth + 1), interval(ch[2], bnd, depth + 1)
        if a is None or b is None:
            return None
        return (min(a[0], b[0]), max(a[1], b[1]))
    return None


def decide_by_intervals(c, bnd, depth=0):
    """True / False if the boolean term is decided by interval arithmetic over the registered bounds, else None"""
    if isinstance(c, bool):
        return c
    if depth > 20:
        return None
    k = c.decl().kind()
    ch = c.children()
    if k in (z3.Z3_OP_LE, z3.Z3_OP_LT, z3.Z3_OP_GE, z3.Z3_OP_GT, z3.Z3_OP_EQ, z3.Z3_OP_DISTINCT) and len(ch) == 2 and z3.is_int(ch[0]):
        a, b = interval(ch[0], bnd), interval(ch[1], bnd)
        if a is None or b is None:
            return None
        if k == z3.Z3_OP_LE:
            return True if a[1] <= b[0] else (False if a[0] > b[1] else None)
        if k == z3.Z3_OP_LT:
            return True if a[1] < b[0] else (False if a[0] >= b[1] else None)
        if k == z3.Z3_OP_GE:
            return True if a[0] >= b[1] else (False if a[1] < b[0] else None)
        if k == z3.Z3_OP_GT:
            return True if a[0] > b[1] else (False if a[1] <= b[0] else None)
        disjoint = a[1] < b[0] or b[1] < a[0]
        same = a[0] == a[1] == b[0] == b[1]
        if k == z3.Z3_OP_EQ:
            return False if disjoint else (True if same else None)
        return True if disjoint else (False if same else None)
    if k == z3.Z3_OP_NOT:
        r = decide_by_intervals(ch[0], bnd, depth + 1)
        return None if r is None else (not r)
    if k == z3.Z3_OP_AND:
        rs = [decide_by_intervals(x, bnd, depth + 1) for x in ch]
        if any(r is False for r in rs):
            return False
        return True if all(r is True for r in rs) else None
    if k == z3.Z3_OP_OR:
        rs = [decide_by_intervals(x, bnd, depth + 1) for x in ch]
        if any(r is True for r in rs):
            return True
        return False if all(r is False for r in rs) else None
    return None


class Cut:
    """loop-invariant cut: havoc = debug names of the loop-carried integer variables, keep = names of variables that are
    read but not modified, invariant(values: name -> term, visit index, state) -> [(label, formula)]"""

    def __init__(self, havoc, keep, invariant, mode="unroll", bb=None, variant=None, assume_after=None):
        self.assume_after = assume_after      # optional formula builder(values) assumed after the havoc (e.g. the loop exit condition)
        self.havoc = list(havoc)
        self.keep = list(keep)
        self.invariant = invariant
        self.mode = mode
        self.bb = bb
        self.variant = variant


class _Alts:
    def __init__(self, alts):
        self.alts = alts


class _Enter:
    def __init__(self, fn, args, subst=None, post=None):
        self.fn = fn
        self.args = args
        self.subst = subst or {}
        self.post = post


class _Holder:
    def __init__(self, v):
        self.v = v


def _PanicState(s, msg):
    return s


def _has_generic(ty):
    return any(re.search(r"(?<![A-Za-z0-9_:])%s(?![A-Za-z0-9_])" % g, ty) for g in GENERIC_NAMES)


def _mentions(f, name):
    pat = r"(?<![A-Za-z0-9_])%s(?![A-Za-z0-9_])" % name
    return bool(re.search(pat, f.text)) or any(re.search(pat, t) for t in f.locals.values())


def _successors(t):
    k = t[0]
    if k == "goto":
        return [t[1]]
    if k == "switch":
        return [bb for _, bb in t[2]] + ([t[3]] if t[3] else [])
    if k == "assert":
        return [t[4]]
    if k == "call":
        return [t[4]] if t[4] else []
    return []


def _common_prefix(lists):
    n = min(len(l) for l in lists)
    i = 0
    while i < n:
        x = lists[0][i]
        if not all(l[i] is x or (hasattr(x, "get_id") and hasattr(l[i], "get_id") and l[i].get_id() == x.get_id())
                   for l in lists[1:]):
            break
        i += 1
    return i


def _same_const(a, b):
    if isinstance(a, IV) and isinstance(b, IV):
        return a.ty == b.ty and is_conc(a.t) and is_conc(b.t) and a.t == b.t
    return False


def _unescape(s, bytes_=False):
    out = []
    i = 0
    while i < len(s):
        c = s[i]
        if c == "\\":
            n = s[i + 1]
            if n == "x":
                out.append(chr(int(s[i + 2:i + 4], 16)))
                i += 4
                continue
            if n == "u":
                e = s.index("}", i)
                out.append(chr(int(s[i + 3:e], 16)))
                i = e + 1
                continue
            out.append({"n": "\n", "t": "\t", "r": "\r", "0": "\0", "\\": "\\", '"': '"', "'": "'"}.get(n, n))
            i += 2
            continue
        out.append(c)
        i += 1
    return "".join(out)
