"""Models of `core` / `alloc` / `std` functions, written from their documented
contracts.  This table is the trusted base of the executor and is listed in
every evidence file (MODELS).  Anything not listed -> NotImplemented -> the
executor fails closed.
"""
import re
import z3
from . import terms as T
from .terms import INT_TYPES, ty_range, is_conc
from .mirparse import norm_type

MODELS = []   # names of the models that were actually used (filled at run time)
USED = set()


def _use(name):
    USED.add(name)


FLOAT_CONSTS = {("f64", "MANTISSA_DIGITS"): (53, "u32"), ("f64", "MAX_EXP"): (1024, "i32"), ("f64", "MIN_EXP"): (-1021, "i32"),
                ("f32", "MANTISSA_DIGITS"): (24, "u32"), ("f32", "MAX_EXP"): (128, "i32"), ("f32", "MIN_EXP"): (-125, "i32")}


def known_const(text):
    m = re.fullmatch(r"(?:core::)?(f64|f32)::<impl (?:f64|f32)>::(\w+)", text)
    if m and (m.group(1), m.group(2)) in FLOAT_CONSTS:
        v, ty = FLOAT_CONSTS[(m.group(1), m.group(2))]
        _use("language constant %s::%s" % m.groups())
        return _E().IV(v, ty)
    return None


def _E():
    from . import exec as E
    return E


INTS = "u8|u16|u32|u64|u128|usize|i8|i16|i32|i64|i128|isize"


def panic_kind(ex, st, fr, callee, args):
    """classify diverging calls; returns a message or None"""
    E = _E()
    c = callee
    if re.search(r"\bpanic_display::<", c):
        v = args[0]
        while isinstance(v, E.RefV):
            v = ex.read_ref(st, v)
        if isinstance(v, E.EnumV):
            names = ex.prog.enums.get(v.ty, [])
            _use("core::panicking::panic_display")
            return "explicit: %s::%s" % (v.ty, names[v.variant] if names else v.variant)
        return "explicit: %r" % (v,)
    if re.match(r"^(core::panicking::)?panic(_fmt|_nounwind|_explicit)?$", c) or c.startswith("core::panicking::panic"):
        msg = ""
        if args:
            a = args[0]
            if isinstance(a, E.StrV):
                msg = a.s
            elif isinstance(a, E.Opaque):
                msg = repr(a.payload)
        _use("core::panicking::panic*")
        return "panic: " + msg
    if re.search(r"\b(assert_failed|unwrap_failed|expect_failed|panic_bounds_check|panic_const\w*|unreachable_display|panic_cold_display|panic_cold_explicit)\b", c):
        _use("core::panicking::*")
        return "panic: " + c.split("::<")[0]
    return None


def classify_panic(msg):
    """coarse class of a panic message"""
    if msg is None:
        return "none"
    if msg.startswith("UNWIND"):
        return "unwind"
    if msg.startswith("explicit: "):
        return msg[10:]
    if "divide" in msg and "by zero" in msg or "remainder" in msg and "divisor of zero" in msg:
        return "divzero"
    if "attempt to" in msg or "overflow" in msg:
        return "overflow"
    if "index out of bounds" in msg:
        return "index"
    if "unwrap" in msg:
        return "unwrap"
    return "other:" + msg[:60]


def _int_of(callee):
    m = re.search(r"<impl (%s)>" % INTS, callee)
    return m.group(1) if m else None


def _deref_all(ex, st, v):
    E = _E()
    while isinstance(v, E.RefV):
        v = ex.read_ref(st, v)
    return v


def _some(v):
    return _E().EnumV("Option", 1, (v,))


def _none():
    return _E().EnumV("Option", 0, ())


def _ordering(i):
    return _E().EnumV("Ordering", i)


def _panic(ex, st, msg):
    return _E().Outcome("panic", None, st, msg)


def _cmp_alts(ex, a, b, wrap_some):
    E = _E()
    f = (lambda v: _some(v)) if wrap_some else (lambda v: v)
    if is_conc(a) and is_conc(b):
        return f(_ordering(0 if a < b else 1 if a == b else 2))
    return E._Alts([(T.lt(a, b), f(_ordering(0))), (T.eq(a, b), f(_ordering(1))), (T.lt(b, a), f(_ordering(2)))])


def call(ex, st, fr, callee, last, args, argops, dest):
    E = _E()
    IV, EnumV, Agg = E.IV, E.EnumV, E.Agg
    c = re.sub(r"^(std|core)::(option|result|cmp)::(?=Option|Result|Ordering)", "", callee)

    # ---- Try / FromResidual ------------------------------------------------
    if re.match(r"^<Option<.*> as (std::ops::|core::ops::)?Try>::branch$", c):
        _use("<Option<T> as Try>::branch")
        v = args[0]
        if v.variant == 1:
            return EnumV("ControlFlow", 0, (v.fields[0],))
        return EnumV("ControlFlow", 1, (EnumV("Option", 0),))
    if re.match(r"^<Result<.*> as (std::ops::|core::ops::)?Try>::branch$", c):
        _use("<Result<T,E> as Try>::branch")
        v = args[0]
        if v.variant == 0:
            return EnumV("ControlFlow", 0, (v.fields[0],))
        return EnumV("ControlFlow", 1, (EnumV("Result", 1, (v.fields[0],)),))
    if re.match(r"^<Option<.*> as (std::ops::|core::ops::)?FromResidual<.*>>::from_residual$", c):
        _use("<Option<T> as FromResidual>::from_residual")
        return _none()
    if re.match(r"^<Result<.*> as (std::ops::|core::ops::)?FromResidual<.*>>::from_residual$", c):
        _use("<Result<T,E> as FromResidual>::from_residual")
        return EnumV("Result", 1, (args[0].fields[0],))

    # ---- integer methods -----------------------------------------------------
    ity = _int_of(c)
    if ity and re.search(r">::(checked|wrapping|overflowing|saturating)_(add|sub|mul)$", c):
        mode, op = re.search(r">::(\w+?)_(add|sub|mul)$", c).groups()
        exv = {"add": T.add, "sub": T.sub, "mul": T.mul}[op](args[0].t, args[1].t)
        _use("core::num::<impl int>::%s_%s" % (mode, op))
        if mode == "checked":
            inr = T.in_range(exv, ity)
            if isinstance(inr, bool):
                return _some(IV(exv, ity)) if inr else _none()
            return E._Alts([(inr, _some(IV(exv, ity))), (T.bnot(inr), _none())])
        if mode == "wrapping":
            a0, a1 = args[0], args[1]
            if a0.ex is not None or a1.ex is not None:
                exv = {"add": T.add, "sub": T.sub, "mul": T.mul}[op](a0.ex if a0.ex is not None else a0.t,
                                                                       a1.ex if a1.ex is not None else a1.t)
            w = ex.wrap(st, exv, ity)
            return IV(w, ity, ex=None if w is exv else exv)
        if mode == "saturating":
            lo, hi = ty_range(ity)
            return IV(T.ite(T.lt(exv, lo), lo, T.ite(T.lt(hi, exv), hi, exv)), ity)
    if ity and re.search(r">::(wrapping|checked|overflowing)_neg$", c):
        mode = re.search(r">::(\w+?)_neg$", c).group(1)
        _use("core::num::<impl int>::%s_neg" % mode)
        x = args[0].t
        lo, hi = ty_range(ity)
        signed = INT_TYPES[ity][0]
        # the only value whose negation leaves the type: MIN for signed types, every non-zero value for unsigned ones
        ovf = T.eq(x, lo) if signed else T.bnot(T.eq(x, 0))
        if mode == "wrapping":
            if signed:
                return IV(T.ite(ovf, lo, T.neg(x)), ity)
            return IV(ex.wrap(st, T.neg(x), ity), ity)
        if mode == "checked":
            if isinstance(ovf, bool):
                return _none() if ovf else _some(IV(T.neg(x), ity))
            return E._Alts([(T.bnot(ovf), _some(IV(T.neg(x), ity))), (ovf, _none())])
        return NotImplemented
    if ity and re.search(r">::overflowing_(add|sub|mul)$", c):
        op = re.search(r">::overflowing_(add|sub|mul)$", c).group(1)
        _use("core::num::<impl int>::overflowing_%s" % op)
        exv = {"add": T.add, "sub": T.sub, "mul": T.mul}[op](args[0].t, args[1].t)
        inr = T.in_range(exv, ity)
        w = ex.wrap(st, exv, ity)
        return E.Agg("tuple", (IV(w, ity), T.bnot(inr)))
    if ity and re.search(r">::(wrapping|checked)_abs$", c):
        mode = re.search(r">::(\w+?)_abs$", c).group(1)
        _use("core::num::<impl int>::%s_abs" % mode)
        x = args[0].t
        lo, _ = ty_range(ity)
        ismin = T.eq(x, lo)
        absx = T.ite(T.le(0, x), x, T.neg(x))
        if mode == "wrapping":
            return IV(T.ite(ismin, lo, absx), ity)
        if isinstance(ismin, bool):
            return _none() if ismin else _some(IV(absx, ity))
        return E._Alts([(T.bnot(ismin), _some(IV(absx, ity))), (ismin, _none())])
    if ity and c.endswith(">::abs_diff"):
        _use("core::num::<impl int>::abs_diff")
        a, b = args[0].t, args[1].t
        uty = ity if ity.startswith("u") else "u" + ity[1:]
        return IV(T.ite(T.le(b, a), T.sub(a, b), T.sub(b, a)), uty)
    if ity and re.search(r">::checked_(div|rem)$", c):
        op = re.search(r">::checked_(div|rem)$", c).group(1)
        _use("core::num::<impl int>::checked_%s (truncated division; None for a zero divisor or MIN / -1)" % op)
        a, b = args[0].t, args[1].t
        lo, _ = ty_range(ity)
        bad = T.eq(b, 0)
        if INT_TYPES[ity][0]:
            bad = T.bor(bad, T.band(T.eq(a, lo), T.eq(b, -1)))
        if bad is True:
            return _none()
        if bad is not False:
            tid = bad.get_id()
            if tid in st.true_ids:
                return _none()
            if tid not in st.false_ids:
                raise E.Fork([(bad, None), (z3.Not(bad), None)])
        q, r = ex.tdivmod(st, a, b, ity)
        return _some(IV(q if op == "div" else r, ity))
    if ity and re.search(r">::(min|max)$", c) or re.match(r"^<(%s) as Ord>::(min|max)$" % INTS, c):
        _use("Ord::min / Ord::max on primitive integers")
        a, b = args[0], args[1]
        if c.endswith("min"):
            return IV(T.ite(T.le(a.t, b.t), a.t, b.t), a.ty)
        return IV(T.ite(T.le(a.t, b.t), b.t, a.t), a.ty)
    if re.match(r"^(std|core)::cmp::max::<(%s)>$" % INTS, c):
        _use("core::cmp::min/max::<int>")
        a, b = args[0], args[1]
        return IV(T.ite(T.le(a.t, b.t), b.t, a.t), a.ty)
    if ity and c.endswith(">::checked_pow"):
        _use("core::num::<impl int>::checked_pow (concrete exponent)")
        e = ex.conc(st, args[1].t, "pow exponent")
        b = args[0].t
        if is_conc(b):
            r = b ** e
            return _some(IV(r, ity)) if T.in_range(r, ity) else _none()
        return NotImplemented
    if ity and re.search(r">::(rem|div)_euclid$", c):
        op = re.search(r">::(rem|div)_euclid$", c).group(1)
        _use("core::num::<impl int>::%s_euclid (over the truncated division; panics for a zero divisor and MIN / -1)" % op)
        a, b = args[0].t, args[1].t
        lo, _ = ty_range(ity)
        zero = T.eq(b, 0)
        ovf = T.band(T.eq(a, lo), T.eq(b, -1)) if INT_TYPES[ity][0] else False
        for cond in (zero, ovf):
            if cond is True:
                return _panic(ex, st, "attempt to divide by zero" if cond is zero else "attempt to divide with overflow")
            if cond is not False:
                tid = cond.get_id()
                if tid in st.true_ids:
                    return _panic(ex, st, "attempt to divide by zero" if cond is zero else "attempt to divide with overflow")
                if tid not in st.false_ids:
                    raise E.Fork([(cond, None), (z3.Not(cond), None)])
        q, r = ex.tdivmod(st, a, b, ity)
        neg = T.lt(r, 0)
        bpos = T.lt(0, b)
        if op == "rem":
            return IV(T.ite(neg, T.ite(bpos, T.add(r, b), T.sub(r, b)), r), ity)
        return IV(T.ite(neg, T.ite(bpos, T.sub(q, 1), T.add(q, 1)), q), ity)
    if ity and re.search(r">::(checked|wrapping|saturating)_(add|sub)_unsigned$", c):
        mode, op = re.search(r">::(\w+?)_(add|sub)_unsigned$", c).groups()
        _use("core::num::<impl int>::%s_%s_unsigned" % (mode, op))
        exv = (T.add if op == "add" else T.sub)(args[0].t, args[1].t)
        inr = T.in_range(exv, ity)
        if mode == "checked":
            if isinstance(inr, bool):
                return _some(IV(exv, ity)) if inr else _none()
            return E._Alts([(inr, _some(IV(exv, ity))), (T.bnot(inr), _none())])
        if mode == "wrapping":
            return IV(ex.wrap(st, exv, ity), ity)
        lo, hi = ty_range(ity)
        return IV(T.ite(T.lt(exv, lo), lo, T.ite(T.lt(hi, exv), hi, exv)), ity)
    if ity and re.search(r">::(checked_)?ilog2$", c):
        checked = "checked_" in c
        _use("core::num::<impl int>::ilog2 / checked_ilog2 (forks over the possible results)")
        x = args[0].t
        w = INT_TYPES[ity][1]
        fail = (lambda: _none()) if checked else (lambda: _panic(ex, st, "argument of integer logarithm must be positive"))
        ok = (lambda k: _some(IV(k, "u32"))) if checked else (lambda k: IV(k, "u32"))
        if is_conc(x):
            return fail() if x <= 0 else ok(int(x).bit_length() - 1)
        _, hi = ty_range(ity)
        alts = [(T.le(x, 0), fail())]
        k = 0
        while (1 << k) <= hi:
            alts.append((T.band(T.le(1 << k, x), T.lt(x, 1 << (k + 1))) if (1 << (k + 1)) <= hi else T.le(1 << k, x), ok(k)))
            k += 1
        return _outcome_alts(ex, st, alts)
    if ity and c.endswith(">::checked_ilog10"):
        _use("core::num::<impl int>::checked_ilog10 (None for arguments <= 0, otherwise forks over the possible results)")
        x = args[0].t
        if is_conc(x):
            return _none() if x <= 0 else _some(IV(len(str(int(x))) - 1, "u32"))
        _, hi = ty_range(ity)
        alts = [(T.le(x, 0), _none())]
        k = 0
        while 10 ** k <= hi:
            alts.append((T.band(T.le(10 ** k, x), T.lt(x, 10 ** (k + 1))) if 10 ** (k + 1) <= hi else T.le(10 ** k, x), _some(IV(k, "u32"))))
            k += 1
        return E._Alts(alts)
    if ity and c.endswith(">::ilog10"):
        _use("core::num::<impl int>::ilog10 (forks over the 39 possible results; panics for arguments <= 0)")
        x = args[0].t
        if is_conc(x):
            if x <= 0:
                return _panic(ex, st, "argument of integer logarithm must be positive")
            return IV(len(str(int(x))) - 1, "u32")
        _, hi = ty_range(ity)
        alts = [(T.le(x, 0), _panic(ex, st, "argument of integer logarithm must be positive"))]
        k = 0
        while 10 ** k <= hi:
            alts.append((T.band(T.le(10 ** k, x), T.lt(x, 10 ** (k + 1))) if 10 ** (k + 1) <= hi else T.le(10 ** k, x), IV(k, "u32")))
            k += 1
        return _outcome_alts(ex, st, alts)
    if ity and c.endswith(">::count_ones") and is_conc(args[0].t):
        _use("core::num::<impl int>::count_ones (concrete argument)")
        w = INT_TYPES[ity][1]
        return IV(bin(int(args[0].t) & ((1 << w) - 1)).count("1"), "u32")
    if ity and re.search(r">::saturating_(neg|abs)$", c):
        _use("core::num::<impl int>::saturating_neg / saturating_abs")
        x = args[0].t
        lo, hi = ty_range(ity)
        if c.endswith("neg"):
            return IV(T.ite(T.eq(x, lo), hi, T.neg(x)), ity)
        return IV(T.ite(T.eq(x, lo), hi, T.ite(T.le(0, x), x, T.neg(x))), ity)
    if re.match(r"^<(%s) as (std::cmp::)?Ord>::clamp$" % INTS, c):
        _use("Ord::clamp on primitive integers (panics if min > max)")
        x, lo_, hi_ = args[0].t, args[1].t, args[2].t
        bad = T.lt(hi_, lo_)
        val = IV(T.ite(T.lt(x, lo_), lo_, T.ite(T.lt(hi_, x), hi_, x)), args[0].ty)
        if bad is False:
            return val
        if bad is True:
            return _panic(ex, st, "assertion failed: min <= max")
        return _outcome_alts(ex, st, [(bad, _panic(ex, st, "assertion failed: min <= max")), (T.bnot(bad), val)])
    if ity and c.endswith(">::unsigned_abs"):
        _use("core::num::<impl int>::unsigned_abs")
        x = args[0].t
        uty = "u" + ity[1:]
        k = st.known(T.le(0, x))
        if k is True:
            return IV(x, uty)
        if k is False:
            return IV(T.neg(x), uty)
        return IV(T.ite(T.le(0, x), x, T.neg(x)), uty)
    if ity and c.endswith(">::abs"):
        _use("core::num::<impl int>::abs (inherits overflow checks)")
        x = args[0].t
        lo, _ = ty_range(ity)
        if is_conc(x):
            if x == lo:
                return _panic(ex, st, "attempt to negate with overflow") if ex.prog.overflow_checks else IV(lo, ity)
            return IV(abs(x), ity)
        ismin = (x == lo)
        k = st.known(x >= 0)
        absx = x if k is True else (-x if k is False else z3.If(x >= 0, x, -x))
        if ismin.get_id() in st.false_ids or k is True:
            return IV(absx, ity)
        alts = [(x != lo, IV(absx, ity))]
        if ex.prog.overflow_checks:
            alts.append((ismin, _panic(ex, st, "attempt to negate with overflow")))
        else:
            alts.append((ismin, IV(lo, ity)))
        return _outcome_alts(ex, st, alts)
    if ity and c.endswith(">::signum"):
        _use("core::num::<impl int>::signum")
        x = args[0].t
        return IV(T.ite(T.lt(x, 0), -1, T.ite(T.eq(x, 0), 0, 1)), ity)
    if ity and c.endswith(">::is_negative"):
        _use("core::num::<impl int>::is_negative")
        k = st.known(T.lt(args[0].t, 0))
        return T.lt(args[0].t, 0) if k is None else k
    if ity and c.endswith(">::is_positive"):
        _use("core::num::<impl int>::is_positive")
        return T.lt(0, args[0].t)
    if ity and c.endswith(">::pow"):
        _use("core::num::<impl int>::pow (concrete exponent; inherits overflow checks)")
        e = ex.conc(st, args[1].t, "pow exponent")
        b = args[0].t
        if is_conc(b):
            r = b ** e
            if not T.in_range(r, ity):
                return _panic(ex, st, "attempt to multiply with overflow") if ex.prog.overflow_checks else IV(T.wrap_c(r, ity), ity)
            return IV(r, ity)
        if e <= 4:
            # symbolic base, small concrete exponent: the exact power as a product term; out of range = the arithmetic-overflow panic
            # (or the wrapped value where the compilation has no overflow checks)
            exv = 1
            for _ in range(e):
                exv = T.mul(exv, b)
            inr = T.in_range(exv, ity)
            if inr is True:
                return IV(exv, ity)
            if ex.prog.overflow_checks:
                return _outcome_alts(ex, st, [(inr, IV(exv, ity)), (T.bnot(inr), _panic(ex, st, "attempt to multiply with overflow"))])
            return IV(ex.wrap(st, exv, ity), ity)
        return NotImplemented
    if ity and re.search(r">::wrapping_sh(l|r)$", c):
        k = ex.conc(st, args[1].t, "shift amount") % INT_TYPES[ity][1]
        _use("core::num::<impl int>::wrapping_shl / wrapping_shr (concrete amount, taken modulo the width)")
        if c.endswith("shl"):
            return IV(ex.wrap(st, T.mul(args[0].t, 1 << k), ity), ity)
        q, _ = ex.divmod_pow2(st, args[0].t, k) if k else (args[0].t, 0)
        return IV(q, ity)
    if ity and c.endswith(">::saturating_sub"):
        _use("core::num::<impl uint>::saturating_sub")
        a, b = args[0].t, args[1].t
        lo, hi = ty_range(ity)
        d = T.sub(a, b)
        return IV(T.ite(T.lt(d, lo), lo, T.ite(T.lt(hi, d), hi, d)), ity)
    if ity and (c.endswith(">::leading_zeros") or c.endswith(">::trailing_zeros")):
        w = INT_TYPES[ity][1]
        x = args[0].t
        lead = c.endswith("leading_zeros")
        _use("core::num::<impl int>::%s (forks over the result)" % ("leading_zeros" if lead else "trailing_zeros"))
        if is_conc(x):
            ux = x & ((1 << w) - 1)
            if ux == 0:
                return IV(w, "u32")
            if lead:
                return IV(w - ux.bit_length(), "u32")
            return IV((ux & -ux).bit_length() - 1, "u32")
        hints = st.tags.get("lz_hints")
        nth = st.tags.get("lz_calls", 0)
        st.tags["lz_calls"] = nth + 1
        if hints is not None and lead and nth < len(hints) and not INT_TYPES[ity][0]:
            k = hints[nth]
            cond = (x == 0) if k == w else z3.And(x >= (1 << (w - 1 - k)), x < (1 << (w - k)))
            if ex.proves(st, cond, 2000):
                return IV(k, "u32")
        signed = INT_TYPES[ity][0]
        if lead and signed:
            return NotImplemented

        def cond_for(k):
            if lead:
                return (x == 0) if k == w else z3.And(x >= (1 << (w - 1 - k)), x < (1 << (w - k)))
            if k == w:
                return (x == 0)
            m = T.fresh_int("odd")
            return (x == (2 * m + 1) * (1 << k))
        if lead:
            # the feasible results form an interval: find one by a model, then widen while feasible
            sv = z3.Solver()
            sv.set("timeout", 3000)
            for cst in st.constraints():
                sv.add(cst)
            if sv.check() == z3.sat:
                xv = sv.model().eval(x, model_completion=True).as_long()
                k0 = w if xv == 0 else w - xv.bit_length()
                ks = [k0]
                k = k0 - 1
                while k >= 0 and ex.feasible(st, cond_for(k)):
                    ks.insert(0, k)
                    k -= 1
                k = k0 + 1
                while k <= w and ex.feasible(st, cond_for(k)):
                    ks.append(k)
                    k += 1
                return E._Alts([(cond_for(k), IV(k, "u32")) for k in ks])
        return E._Alts([(cond_for(k), IV(k, "u32"), (lambda s2, k=k: s2.tags.__setitem__("last_tz", k))) for k in range(0, w + 1)])
    if ity and c.endswith(">::from_le"):
        _use("core::num::<impl int>::from_le (little-endian target)")
        return args[0]
    if ity and c.endswith(">::count_ones"):
        return NotImplemented

    # ---- operator traits on primitive ints (inherit overflow checks) -------------
    m = re.match(r"^<(%s) as (?:std::ops::|core::ops::)?(Add|Sub|Mul|Neg|Div|Rem)(?:<.*>)?>::(add|sub|mul|neg|div|rem)$" % INTS, c)
    if m:
        ty = m.group(1)
        op = m.group(3)
        _use("<int as %s>::%s (#[rustc_inherit_overflow_checks])" % (m.group(2), op))
        if op == "neg":
            exv = T.neg(args[0].t)
        elif op in ("add", "sub", "mul"):
            exv = {"add": T.add, "sub": T.sub, "mul": T.mul}[op](args[0].t, args[1].t)
        else:
            return NotImplemented
        inr = T.in_range(exv, ty)
        if isinstance(inr, bool):
            if inr:
                return IV(exv, ty)
            return _panic(ex, st, "attempt to %s with overflow" % op) if ex.prog.overflow_checks else IV(T.wrap_c(exv, ty), ty)
        if ex.prog.overflow_checks:
            return _outcome_alts(ex, st, [(inr, IV(exv, ty)), (T.bnot(inr), _panic(ex, st, "attempt to %s with overflow" % op))])
        return IV(ex.wrap(st, exv, ty), ty)

    # ---- conversions -----------------------------------------------------------
    m = re.match(r"^<(%s) as From<(%s|bool)>>::from$" % (INTS, INTS), c)
    if m:
        _use("<int as From<int>>::from")
        v = args[0]
        if isinstance(v, (bool, z3.BoolRef)):
            return IV(T.ite(v, 1, 0), m.group(1), ub=1)
        return IV(v.t, m.group(1), ub=v.ub)
    m = re.match(r"^<(%s) as TryFrom<(%s)>>::try_from$" % (INTS, INTS), c)
    if m:
        _use("<int as TryFrom<int>>::try_from")
        ty = m.group(1)
        x = args[0].t
        inr = T.in_range(x, ty)
        ok = EnumV("Result", 0, (IV(x, ty),))
        err = EnumV("Result", 1, (E.Opaque("TryFromIntError"),))
        if isinstance(inr, bool):
            return ok if inr else err
        return E._Alts([(inr, ok), (T.bnot(inr), err)])

    # ---- comparisons -------------------------------------------------------------
    m = re.match(r"^<(%s) as (?:std::cmp::)?(PartialOrd|Ord)>::(partial_cmp|cmp)$" % INTS, c)
    if m:
        _use("<int as Ord/PartialOrd>::cmp/partial_cmp")
        a = _deref_all(ex, st, args[0])
        b = _deref_all(ex, st, args[1])
        return _cmp_alts(ex, a.t, b.t, m.group(3) == "partial_cmp")
    m = re.match(r"^<(%s) as (?:std::cmp::)?PartialOrd>::(lt|le|gt|ge)$" % INTS, c)
    if m:
        a = _deref_all(ex, st, args[0])
        b = _deref_all(ex, st, args[1])
        return T.cmp({"lt": "Lt", "le": "Le", "gt": "Gt", "ge": "Ge"}[m.group(2)], a.t, b.t)
    m = re.match(r"^<(%s) as (?:std::cmp::)?PartialEq>::(eq|ne)$" % INTS, c)
    if m:
        a = _deref_all(ex, st, args[0])
        b = _deref_all(ex, st, args[1])
        return T.cmp("Eq" if m.group(2) == "eq" else "Ne", a.t, b.t)
    if re.match(r"^(std|core)::cmp::(min|max)::<(%s)>$" % INTS, c):
        _use("core::cmp::min/max::<int>")
        a, b = args[0], args[1]
        if "min" in c.split("::")[2]:
            return IV(T.ite(T.le(a.t, b.t), a.t, b.t), a.ty)
        return IV(T.ite(T.le(a.t, b.t), b.t, a.t), a.ty)
    if re.match(r"^Ordering::reverse$|cmp::Ordering::reverse$", c):
        _use("Ordering::reverse")
        return _ordering(2 - args[0].variant)
    if re.match(r"^Ordering::(is_lt|is_le|is_gt|is_ge|is_eq|is_ne)$", c):
        v = args[0].variant
        return {"is_lt": v == 0, "is_le": v <= 1, "is_gt": v == 2, "is_ge": v >= 1, "is_eq": v == 1, "is_ne": v != 1}[last]

    # ---- Option / Result / bool helpers ----------------------------------------------
    if re.match(r"^Option::<.*>::unwrap$", c):
        _use("Option::unwrap")
        v = args[0]
        if v.variant == 1:
            return v.fields[0]
        return _panic(ex, st, "called `Option::unwrap()` on a `None` value")
    m = re.match(r"^Option::<.*>::and_then::<.*?(\{closure@.*\})>$", c)
    if m:
        _use("Option::and_then (closure executed from its MIR)")
        v = args[0]
        if v.variant == 0:
            return _none()
        clo = ex.prog.closures.get(norm_type(m.group(1)))
        if clo is None:
            return NotImplemented
        alts = ex_call_local(ex, st, clo, [args[1], v.fields[0]], fr)
        return _map_alts(ex, st, alts, lambda val: val)
    m = re.match(r"^Result::<.*>::and_then::<.*?(\{closure@.*\})>$", c)
    if m:
        _use("Result::and_then (closure executed from its MIR)")
        v = args[0]
        if v.variant == 1:
            return v
        clo = ex.prog.closures.get(norm_type(m.group(1)))
        if clo is None:
            return NotImplemented
        alts = ex_call_local(ex, st, clo, [args[1], v.fields[0]], fr)
        return _map_alts(ex, st, alts, lambda val: val)
    if re.match(r"^Result::<.*>::map_err::<.*>$", c) and isinstance(args[1], E.FnItem):
        _use("Result::map_err over a function item (Ok passes through, Err(e) becomes Err(f(e)); f resolved like any call)")
        v = args[0]
        if v.variant == 0:
            return v
        fname = args[1].name
        flast = re.sub(r"::<[^:]*>$", "", fname).split("::")[-1]
        if flast not in ex.contracts:
            return NotImplemented
        r = ex.contracts[flast](ex, st, fr, fname, [v.fields[0]])
        if r is NotImplemented:
            return NotImplemented
        return E.EnumV("Result", 1, (r,))
    if re.match(r"^Option::<.*>::expect$", c) and isinstance(args[0], E.EnumV):
        _use("Option::expect")
        v = args[0]
        if v.variant == 1:
            return v.fields[0]
        return _panic(ex, st, args[1].s if isinstance(args[1], E.StrV) else "Option::expect failed")
    if re.match(r"^Result::<.*>::(unwrap|expect)$", c) and isinstance(args[0], E.EnumV):
        _use("Result::unwrap / Result::expect")
        v = args[0]
        if v.variant == 0:
            return v.fields[0]
        return _panic(ex, st, "called `Result::unwrap()` on an `Err` value")
    if re.match(r"^Result::<.*>::(is_ok|is_err)$", c):
        v = _deref_all(ex, st, args[0])
        return (v.variant == 0) == c.endswith("is_ok")
    if re.match(r"^Result::<.*>::ok$", c) and isinstance(args[0], E.EnumV):
        _use("Result::ok")
        v = args[0]
        return _some(v.fields[0]) if v.variant == 0 else _none()
    if re.match(r"^Result::<.*>::unwrap_or$", c) and isinstance(args[0], E.EnumV):
        _use("Result::unwrap_or")
        v = args[0]
        return v.fields[0] if v.variant == 0 else args[1]
    if re.match(r"^Option::<.*>::ok_or::<.*>$", c) and isinstance(args[0], E.EnumV):
        _use("Option::ok_or")
        v = args[0]
        return E.EnumV("Result", 0, (v.fields[0],)) if v.variant == 1 else E.EnumV("Result", 1, (args[1],))
    if re.match(r"^Option::<.*>::or$", c) and isinstance(args[0], E.EnumV):
        _use("Option::or")
        return args[0] if args[0].variant == 1 else args[1]
    if re.match(r"^Option::<.*>::(copied|cloned)$", c) and isinstance(args[0], E.EnumV):
        _use("Option::copied / Option::cloned")
        v = args[0]
        return _some(_deref_all(ex, st, v.fields[0])) if v.variant == 1 else _none()
    m = re.match(r"^Option::<.*>::unwrap_or_else::<.*?(\{closure@.*\})>$", c)
    if m and isinstance(args[0], E.EnumV):
        _use("Option::unwrap_or_else (closure executed from its MIR)")
        v = args[0]
        if v.variant == 1:
            return v.fields[0]
        clo = ex.prog.closures.get(norm_type(m.group(1)))
        if clo is None:
            return NotImplemented
        alts = ex_call_local(ex, st, clo, [args[1]], fr)
        return _map_alts(ex, st, alts, lambda val: val)
    m = re.match(r"^Result::<.*>::map::<.*?(\{closure@.*\})>$", c)
    if m and isinstance(args[0], E.EnumV):
        _use("Result::map (closure executed from its MIR)")
        v = args[0]
        if v.variant == 1:
            return v
        clo = ex.prog.closures.get(norm_type(m.group(1)))
        if clo is None:
            return NotImplemented
        alts = ex_call_local(ex, st, clo, [args[1], v.fields[0]], fr)
        return _map_alts(ex, st, alts, lambda val: E.EnumV("Result", 0, (val,)))
    if re.match(r"^(std|core)::mem::replace::<.*>$", c) and isinstance(args[0], E.RefV):
        _use("core::mem::replace")
        old = ex.read_ref(st, args[0])
        ex.write_ref(st, args[0], args[1])
        return old
    if re.match(r"^Option::<.*>::take$", c) and isinstance(args[0], E.RefV):
        _use("Option::take")
        old = ex.read_ref(st, args[0])
        ex.write_ref(st, args[0], _none())
        return old
    if re.match(r"^(Option|Result)::<.*>::map::<.*>$", c) and len(args) == 2 and isinstance(args[1], E.FnItem) and isinstance(args[0], E.EnumV):
        # map over a function item: identity, or a local function called like any other
        v = args[0]
        is_opt = c.startswith("Option")
        if (is_opt and v.variant == 0) or (not is_opt and v.variant == 1):
            return v
        wrap = (lambda val: _some(val)) if is_opt else (lambda val: E.EnumV("Result", 0, (val,)))
        fname = args[1].name
        if re.match(r"^((std|core)::convert::)?identity(::<.*>)?$", fname):
            _use("Option/Result::map over core::convert::identity")
            return wrap(v.fields[0])
        flast = re.sub(r"::<[^:]*>$", "", fname).split("::")[-1]
        cands = [f for f in ex.prog.by_last.get(flast, []) if f.kind == "fn" and len(f.params) == 1]
        mself = re.match(r"^<(.+?) as ", fname)
        if mself:
            cands = [f for f in cands if norm_type(f.params[0][1]) == norm_type(mself.group(1))]
        if not cands:
            # a function of core (e.g. i8::unsigned_abs): through its builtin model, plain results only
            r = call(ex, st, fr, fname, flast, [v.fields[0]], None, None)
            if r is NotImplemented or isinstance(r, (E._Alts, E.Outcome, E._Enter)):
                return NotImplemented
            return wrap(r)
        if len(cands) != 1:
            return NotImplemented
        _use("Option/Result::map over a function item (local function executed from its MIR)")
        alts = ex_call_local(ex, st, cands[0], [v.fields[0]], fr)
        return _map_alts(ex, st, alts, wrap)
    m = re.match(r"^Option::<.*>::(map_or|is_some_and|filter)::<.*?(\{closure@.*\})>$", c)
    if m and isinstance(args[0], E.EnumV):
        meth = m.group(1)
        _use("Option::%s (closure executed from its MIR)" % meth)
        v = args[0]
        if v.variant == 0:
            return args[1] if meth == "map_or" else (False if meth == "is_some_and" else _none())
        clo = ex.prog.closures.get(norm_type(m.group(2)))
        if clo is None:
            return NotImplemented
        if meth == "map_or":
            alts = ex_call_local(ex, st, clo, [args[2], v.fields[0]], fr)
            return _map_alts(ex, st, alts, lambda val: val)
        if meth == "is_some_and":
            alts = ex_call_local(ex, st, clo, [args[1], v.fields[0]], fr)
            return _map_alts(ex, st, alts, lambda val: val)
        # filter: the predicate takes a reference to the payload
        box = ("tmp", "filter", st.next_uid)
        st.next_uid += 1
        st.heap[box] = v.fields[0]
        alts = ex_call_local(ex, st, clo, [args[1], E.RefV(box=box)], fr)
        out = []
        for pcs, defs, o in alts:
            cond = T.band(*pcs) if pcs else True
            if o.kind == "panic":
                out.append((cond, _WithDefs(E.Outcome("panic", None, None, o.msg), defs, o.state)))
                continue
            keep = o.value
            if isinstance(keep, bool):
                out.append((cond, _WithDefs(v if keep else _none(), defs, o.state)))
            else:
                out.append((T.band(cond, keep), _WithDefs(v, defs, o.state)))
                out.append((T.band(cond, T.bnot(keep)), _WithDefs(_none(), defs, o.state)))
        return E._Alts(out)
    if re.match(r"^Option::<.*>::zip::<.*>$", c) and isinstance(args[0], E.EnumV) and isinstance(args[1], E.EnumV):
        _use("Option::zip")
        a, b = args
        if a.variant == 1 and b.variant == 1:
            return _some(E.Agg("tuple", (a.fields[0], b.fields[0])))
        return _none()
    if re.match(r"^Option::<.*>::unwrap_or$", c):
        _use("Option::unwrap_or")
        v = args[0]
        return v.fields[0] if v.variant == 1 else args[1]
    if re.match(r"^Option::<.*>::(is_some|is_none)$", c):
        v = _deref_all(ex, st, args[0])
        return (v.variant == 1) == c.endswith("is_some")
    m = re.match(r"^Option::<.*>::map::<.*?(\{closure@.*\})>$", c)
    if m:
        _use("Option::map (closure executed from its MIR)")
        v = args[0]
        if v.variant == 0:
            return _none()
        clo = ex.prog.closures.get(norm_type(m.group(1)))
        if clo is None:
            return NotImplemented
        alts = ex_call_local(ex, st, clo, [args[1], v.fields[0]], fr)
        return _map_alts(ex, st, alts, lambda val: _some(val))
    m = re.match(r"^core::bool::<impl bool>::then::<.*?(\{closure@.*\})>$", c)
    if m:
        _use("bool::then (closure executed from its MIR)")
        b = args[0]
        clo = ex.prog.closures.get(norm_type(m.group(1)))
        if clo is None:
            return NotImplemented
        if isinstance(b, bool):
            if not b:
                return _none()
            alts = ex_call_local(ex, st, clo, [args[1]], fr)
            return _map_alts(ex, st, alts, lambda val: _some(val))
        # symbolic condition: fork first
        tid = b.get_id()
        if tid in st.true_ids:
            alts = ex_call_local(ex, st, clo, [args[1]], fr)
            return _map_alts(ex, st, alts, lambda val: _some(val))
        if tid in st.false_ids:
            return _none()
        raise E.Fork([(b, None), (z3.Not(b), None)])
    if re.match(r"^<Option<&u8> as PartialEq>::eq$", c):
        _use("<Option<&u8> as PartialEq>::eq")
        a = _deref_all(ex, st, args[0])
        b = _deref_all(ex, st, args[1])
        if a.variant != b.variant:
            return False
        if a.variant == 0:
            return True
        x = _deref_all(ex, st, a.fields[0])
        y = _deref_all(ex, st, b.fields[0])
        return T.eq(x.t, y.t)
    if re.match(r"^(std|core)::mem::swap::<", c):
        _use("core::mem::swap")
        a, b = args
        va, vb = ex.read_ref(st, a), ex.read_ref(st, b)
        ex.write_ref(st, a, vb)
        ex.write_ref(st, b, va)
        return E.UNIT
    m = re.match(r"^(?:std|core)::mem::size_of::<<(\w+) as ([\w:]+)>::(\w+)>$", c)
    if m:
        aty = ex.prog.assoc_type(m.group(2).split("::")[-1], m.group(1), m.group(3))
        sizes = {"u8": 1, "u16": 2, "u32": 4, "u64": 8, "u128": 16, "usize": 8}
        if aty in sizes:
            _use("core::mem::size_of (associated type resolved from the impl in the source)")
            return IV(sizes[aty], "usize")
        return NotImplemented
    if re.match(r"^(std|core)::mem::size_of::<(\w+)>$", c):
        sizes = {"u8": 1, "u16": 2, "u32": 4, "u64": 8, "u128": 16, "usize": 8}
        ty = re.match(r"^(?:std|core)::mem::size_of::<(\w+)>$", c).group(1)
        if ty in sizes:
            return IV(sizes[ty], "usize")
        return NotImplemented
    if re.match(r"^must_use::<", c) or re.match(r"^(std|core)::hint::must_use::<", c):
        return args[0]

    # ---- iterator adaptors (rev, map) over ranges: lazily evaluated values, concrete bounds only -----------------
    m = re.match(r"^<(.+) as Iterator>::(rev|map)::<.*>$|^<(.+) as Iterator>::(rev)$", c)
    if m and isinstance(args[0], E.Agg) and (args[0].kind.startswith("struct:Range") or args[0].kind.startswith("iter:")):
        which = m.group(2) or m.group(4)
        _use("Iterator::%s over a range (lazy adaptor value)" % which)
        if which == "rev":
            return E.Agg("iter:Rev", (args[0],))
        return E.Agg("iter:Map", (args[0], args[1]))
    if re.match(r"^<.* as IntoIterator>::into_iter$", c) and isinstance(args[0], E.Agg) and args[0].kind.startswith("iter:"):
        return args[0]
    if re.match(r"^<.* as Iterator>::next$", c) and isinstance(args[0], E.RefV):
        itv = ex.read_ref(st, args[0])
        if isinstance(itv, E.Agg) and itv.kind.startswith("iter:"):
            _use("Iterator::next on rev / map adaptors over a range with concrete bounds")

            def step(v):
                """(item or None, new iterator value); raises for anything not concrete"""
                if v.kind == "struct:Range":
                    a, b = v.fields[0], v.fields[1]
                    if not (is_conc(a.t) and is_conc(b.t)):
                        raise E.Unsupported("iterator adaptor over a range with symbolic bounds")
                    if a.t < b.t:
                        return a, E.Agg(v.kind, (IV(a.t + 1, a.ty), b))
                    return None, v
                if v.kind == "iter:Rev":
                    r = v.fields[0]
                    if r.kind != "struct:Range":
                        raise E.Unsupported("rev over %s" % r.kind)
                    a, b = r.fields[0], r.fields[1]
                    if not (is_conc(a.t) and is_conc(b.t)):
                        raise E.Unsupported("iterator adaptor over a range with symbolic bounds")
                    if a.t < b.t:
                        nb = IV(b.t - 1, b.ty)
                        return nb, E.Agg("iter:Rev", (E.Agg(r.kind, (a, nb)),))
                    return None, v
                if v.kind == "iter:Map":
                    item, inner = step(v.fields[0])
                    if item is None:
                        return None, E.Agg("iter:Map", (inner, v.fields[1]))
                    clo_v = v.fields[1]
                    clo = ex.prog.closures.get(clo_v.kind[8:]) if isinstance(clo_v, E.Agg) and clo_v.kind.startswith("closure:") else None
                    if clo is None:
                        raise E.Unsupported("map over a non-closure")
                    box = ("tmp", "mapclo", st.next_uid)
                    st.next_uid += 1
                    st.heap[box] = clo_v
                    outs = ex_call_local(ex, st, clo, [E.RefV(box=box), item], fr)
                    if len(outs) != 1 or outs[0][2].kind != "return" or outs[0][0]:
                        raise E.Unsupported("map closure with several outcomes")
                    return outs[0][2].value, E.Agg("iter:Map", (inner, v.fields[1]))
                raise E.Unsupported("iterator %s" % v.kind)
            item, nv = step(itv)
            ex.write_ref(st, args[0], nv)
            return _none() if item is None else _some(item)

    # ---- ranges as iterators ---------------------------------------------------------------
    if re.match(r"^<(std::ops::|core::ops::)?Range(Inclusive)?<\w+> as IntoIterator>::into_iter$", c):
        _use("<Range<T> as IntoIterator>::into_iter (identity)")
        return args[0]
    if re.match(r"^(std::ops::|core::ops::)?RangeInclusive::<\w+>::new$", c):
        _use("RangeInclusive::new (start, end, exhausted = false)")
        return E.Agg("struct:RangeInclusive", (args[0], args[1], False))
    m = re.match(r"^<(?:std::ops::|core::ops::)?Range(Inclusive)?<(\w+)> as Iterator>::next$", c)
    if m and isinstance(args[0], E.RefV):
        r = ex.read_ref(st, args[0])
        if isinstance(r, E.Agg) and len(r.fields) >= 2:
            ty = m.group(2)
            start, end = r.fields[0], r.fields[1]
            if not m.group(1):
                _use("<Range<T> as Iterator>::next (start < end: yield start, start += 1)")
                more = T.lt(start.t, end.t)

                def adv(s2, start=start, end=end, ref=args[0], kind=r.kind):
                    ex.write_ref(s2, ref, E.Agg(kind, (IV(T.add(start.t, 1), ty), end)))
                if more is True:
                    adv(st)
                    return _some(start)
                if more is False:
                    return _none()
                return E._Alts([(more, _some(start), adv), (T.bnot(more), _none())])
            _use("<RangeInclusive<T> as Iterator>::next (yields start..=end once, then exhausted)")
            exh = r.fields[2] if len(r.fields) > 2 else False
            if exh is True:
                return _none()
            if exh is not False:
                return NotImplemented
            lt = T.lt(start.t, end.t)
            eq = T.eq(start.t, end.t)

            def adv1(s2, start=start, end=end, ref=args[0], kind=r.kind):
                ex.write_ref(s2, ref, E.Agg(kind, (IV(T.add(start.t, 1), ty), end, False)))

            def adv2(s2, start=start, end=end, ref=args[0], kind=r.kind):
                ex.write_ref(s2, ref, E.Agg(kind, (start, end, True)))
            alts = []
            for cond, val, fn in ((lt, _some(start), adv1), (eq, _some(start), adv2), (T.bnot(T.bor(lt, eq)), _none(), None)):
                if cond is False:
                    continue
                if cond is True:
                    if fn:
                        fn(st)
                    return val
                alts.append((cond, val, fn) if fn else (cond, val))
            return E._Alts(alts)

    # ---- floats (carried as bit patterns) -----------------------------------------------
    m = re.match(r"^core::(f64|f32)::<impl (?:f64|f32)>::(to_bits|from_bits|is_nan|is_infinite)$", c)
    if m:
        fty, meth = m.groups()
        _use("f64/f32::%s (on the bit pattern)" % meth)
        ibits = "u64" if fty == "f64" else "u32"
        if meth == "from_bits":
            return E.FV(args[0].t, fty)
        f = args[0]
        if f.bits is None:
            return NotImplemented
        if meth == "to_bits":
            return IV(f.bits, ibits)
        fb, eb = (52, 11) if fty == "f64" else (23, 8)
        bits = f.bits
        q, frac = ex.divmod_pow2(st, bits, fb)
        _, expo = ex.divmod_pow2(st, q, eb)
        allones = T.eq(expo, (1 << eb) - 1)
        if meth == "is_nan":
            return T.band(allones, T.bnot(T.eq(frac, 0)))
        return T.band(allones, T.eq(frac, 0))

    # ---- slices / strings (byte-slice model) ------------------------------------------------
    r = _slice_models(ex, st, fr, c, last, args)
    if r is not NotImplemented:
        return r

    # ---- thread local storage model ------------------------------------------------------------
    r = _tls_models(ex, st, fr, c, last, args)
    if r is not NotImplemented:
        return r

    # ---- formatting observation points -----------------------------------------------------------
    r = _fmt_models(ex, st, fr, c, last, args)
    if r is not NotImplemented:
        return r

    # Ord::max / Ord::min / Ord::clamp (core's default methods) on Decimal operands with concrete scales, through the CONTRACT
    # "Ord::cmp on Decimals is the comparison of the values" (obligation: C08's cmp cases)
    m = re.match(r"^<Decimal as (?:std::cmp::)?Ord>::(max|min|clamp)$", c)
    if m and all(isinstance(a, E.Agg) and len(a.fields) == 2 and is_conc(a.fields[1].t) for a in args):
        _use("CONTRACT <Decimal as Ord>::%s = core's default method over cmp, cmp = comparison by value (obligation C08)" % m.group(1))
        smax = max(int(a.fields[1].t) for a in args)
        val = [T.mul(a.fields[0].t, 10 ** (smax - int(a.fields[1].t))) for a in args]
        if m.group(1) == "max":       # max_by: v1 only if strictly greater
            gt = T.lt(val[1], val[0])
            return E._Alts([(gt, args[0]), (T.bnot(gt), args[1])])
        if m.group(1) == "min":       # min_by: v2 only if v1 is strictly greater
            gt = T.lt(val[1], val[0])
            return E._Alts([(T.bnot(gt), args[0]), (gt, args[1])])
        bad = T.lt(val[2], val[1])
        lo = T.lt(val[0], val[1])
        hi = T.lt(val[2], val[0])
        return _outcome_alts(ex, st, [(bad, _panic(ex, st, "assertion failed: min <= max")),
                                      (T.band(T.bnot(bad), lo), args[1]),
                                      (T.band(T.bnot(bad), T.bnot(lo), hi), args[2]),
                                      (T.band(T.bnot(bad), T.bnot(lo), T.bnot(hi)), args[0])])
    # default trait methods of core implemented over local impls
    m = re.match(r"^<(&*\w+) as (?:std::cmp::)?PartialOrd(?:<(.*)>)?>::(lt|le|gt|ge)$", c)
    if m:
        nref = len(m.group(1)) - len(m.group(1).lstrip("&"))
        selfty = m.group(1).lstrip("&")
        rhs = (m.group(2) or m.group(1)).lstrip("&")
        for _ in range(nref):
            args = [ex.read_ref(st, a) for a in args]
        cands = [f for f in ex.prog.by_last.get("partial_cmp", [])
                 if [norm_type(p[1]) for p in f.params] == ["&" + selfty, "&" + rhs]]
        if len(cands) == 1:
            _use("core default PartialOrd::%s over the local partial_cmp" % m.group(3))
            alts = ex_call_local(ex, st, cands[0], list(args), fr)

            def post(val, meth=m.group(3)):
                if val.variant == 0:
                    return False
                o = val.fields[0].variant
                return {"lt": o == 0, "le": o <= 1, "gt": o == 2, "ge": o >= 1}[meth]
            return _map_alts(ex, st, alts, post)
    m = re.match(r"^<(\w+) as (?:std::cmp::)?PartialEq(?:<(.*)>)?>::ne$", c)
    if m:
        selfty = m.group(1)
        rhs = m.group(2) or selfty
        cands = [f for f in ex.prog.by_last.get("eq", [])
                 if [norm_type(p[1]) for p in f.params] == ["&" + selfty, "&" + rhs]]
        if len(cands) == 1:
            alts = ex_call_local(ex, st, cands[0], list(args), fr)
            return _map_alts(ex, st, alts, lambda v: T.bnot(v))
    return NotImplemented


def _outcome_alts(ex, st, alts):
    """alts: [(cond, value-or-Outcome)] -> _Alts, with panics turned into path ends"""
    E = _E()
    out = []
    for cond, val in alts:
        out.append((cond, val))
    return E._Alts(out)


def ex_call_local(ex, st, fdef, args, fr, subst=None):
    """run a local function to completion from a copy of `st`; returns
    [(extra_pc, extra_defs, outcome)]"""
    E = _E()
    s2 = st.copy()
    n_pc, n_defs = len(s2.pc), len(s2.defs)
    if subst is None and fr is not None and "{closure" in fdef.name:
        subst = fr.subst        # a closure sees the generic parameters (Self, T) of the function it is written in
    nf = E.Frame(s2.next_uid, fdef, subst or {})
    s2.next_uid += 1
    for (pname, _), a in zip(fdef.params, args):
        nf.locals[pname] = a
    # keep caller frames for reference resolution, but mark a barrier: returning from nf ends the run
    s2.frames.append(nf)
    s2.tags["barrier"] = len(s2.frames)
    sub_outs = ex.explore_barrier(s2)
    res = []
    for o in sub_outs:
        res.append((o.state.pc[n_pc:], o.state.defs[n_defs:], o))
    return res


def _map_alts(ex, st, alts, post):
    E = _E()
    out = []
    for pcs, defs, o in alts:
        cond = T.band(*pcs) if pcs else True
        if o.kind == "panic":
            val = E.Outcome("panic", None, None, o.msg)
        else:
            val = post(o.value)
        out.append((cond, _WithDefs(val, defs, o.state)))
    return E._Alts(out)


class _WithDefs:
    def __init__(self, val, defs, state):
        self.val = val
        self.defs = defs
        self.state = state


# ---------------------------------------------------------------------------
def _slice_models(ex, st, fr, c, last, args):
    E = _E()
    IV = E.IV
    if c in ("<str as AsRef<[u8]>>::as_ref", "core::str::<impl str>::as_bytes", "String::as_str", "<String as Deref>::deref"):
        _use(c)
        return _deref_all(ex, st, args[0]) if not isinstance(args[0], (E.SliceV, E.StrV)) else args[0]
    if re.match(r"^core::slice::<impl \[u8\]>::(len|is_empty|first|as_ptr)$", c):
        s = args[0]
        if isinstance(s, E.StrV):
            s = E.SliceV(tuple(IV(b, "u8") for b in s.s.encode("latin1")), 0, len(s.s))
        if not isinstance(s, E.SliceV):
            return NotImplemented
        _use("core::slice::<impl [u8]>::" + last)
        if last == "len":
            return IV(s.len, "usize")
        if last == "is_empty":
            return s.len == 0
        if last == "first":
            if s.len == 0:
                return _none()
            return _some(E.RefV(box=("const", 0, E._Holder(s.data[s.start]))))
        if last == "as_ptr":
            return E.PtrV(s)
    if re.match(r"^core::slice::<impl \[u8\]>::get_unchecked::<(std::ops::)?RangeFrom<usize>>$", c):
        s, rng = args
        _use("<[u8]>::get_unchecked(n..) (bounds asserted by the model)")
        n = ex.conc(st, rng.fields[0].t, "slice start")
        if n > s.len:
            return _panic(ex, st, "MODEL: get_unchecked out of bounds (undefined behaviour)")
        return E.SliceV(s.data, s.start + n, s.len - n)
    if re.match(r"^(core::ptr::|std::ptr::)?read_unaligned::<u64>$", c):
        p = args[0]
        _use("ptr::read_unaligned::<u64> (little-endian sum of 8 bytes; bounds asserted)")
        s = p.slice
        if s.len < 8:
            return _panic(ex, st, "MODEL: read_unaligned past the end (undefined behaviour)")
        t = 0
        for i in range(8):
            t = T.add(t, T.mul(s.data[s.start + i].t, 1 << (8 * i)))
        if not is_conc(t):
            st.divcache[("chunk", t.get_id())] = (t, [s.data[s.start + i].t for i in range(8)])
        return IV(t, "u64")
    return NotImplemented


def _tls_models(ex, st, fr, c, last, args):
    """storage model read off the MIR: a static reached through LocalKey::with whose accessor takes `&/*tls*/ STATIC` is one
    lazily initialised cell per thread (current thread = st.tags['thread']); anything else is not modelled (fail closed)"""
    E = _E()
    if re.match(r"^(std::thread::)?LocalKey::<.*>::new$", c):
        _use("std::thread::LocalKey::new (records the accessor)")
        a = args[0]
        return E.Opaque("LocalKey", a)
    m = re.match(r"^(?:std::thread::)?LocalKey::<.*?>::with::<.*?(\{closure@[^}]*\}).*>$", c)
    mfn = None
    if not m and isinstance(args[-1] if args else None, E.FnItem):
        mfn = re.match(r"^(?:std::thread::)?LocalKey::<.*?>::with::<.*>$", c)
    if m or mfn:
        key = _deref_all(ex, st, args[0])
        if not (isinstance(key, E.Opaque) and key.tag == "LocalKey"):
            return NotImplemented
        acc = key.payload            # the accessor closure value: Agg('closure:...')
        accf = None
        if isinstance(acc, E.Agg) and acc.kind.startswith("closure:"):
            accf = ex.prog.closures.get(acc.kind[8:])
        if accf is None:
            # accessor given as a const path: find `<KEY>::{constant#0}::{closure#0}` (the key's own accessor when there are several keys)
            cands = [f for f in ex.prog.funcs if f.kind == "fn" and "{constant#0}::{closure#0}" in f.name]
            if len(cands) > 1 and isinstance(acc, E.Opaque) and isinstance(acc.payload, str):
                kname = acc.payload.split("::{constant#0}")[0].split("::")[-1]
                cands = [f for f in cands if ("::" + kname + "::{constant#0}") in ("::" + f.name)]
            accf = cands[0] if len(cands) == 1 else None
        if accf is None:
            return NotImplemented
        body = accf.text
        mt = re.search(r"&/\*tls\*/ ([\w:{}#]+)", body)
        mi = re.search(r"get_or_init::<.*>\(.*?, (\w+)\)", body)
        eager = None
        if mt and not mi and ("EagerStorage" in body or "&raw const" in body):
            # `thread_local!(static K: T = const { init })`: one cell per thread holding the const initialiser
            kname = accf.name.split("::{constant#0}")[0].split("::")[-1]
            eager = [f for f in ex.prog.funcs if f.kind != "fn" and f.name.endswith("__RUST_STD_INTERNAL_INIT") and
                     (kname in f.name or len([g for g in ex.prog.funcs if g.kind != "fn" and g.name.endswith("__RUST_STD_INTERNAL_INIT")]) == 1)]
            if len(eager) != 1:
                eager = None
        if not mt or not (mi or eager):
            raise E.Unsupported("storage behind LocalKey is not a #[thread_local] static with lazy or const init: cannot model")
        _use("LocalKey::with over `&/*tls*/ static`: one lazily initialised cell per thread (std's thread_local! contract)")
        thread = st.tags.get("thread", 0)
        cell = ("tlcell", mt.group(1), thread)
        if cell not in st.heap and eager:
            _use("thread_local! with const initialiser: the thread's cell starts with the value of the INIT const")
            outs = ex_call_local(ex, st, eager[0], [], fr)
            if len(outs) != 1 or outs[0][2].kind != "return":
                return NotImplemented
            st.heap[cell] = outs[0][2].value
            st.obs.append(("tls-init", cell, outs[0][2].value))
        if cell not in st.heap:
            initf = [f for f in ex.prog.by_last.get(mi.group(1), [])]
            if len(initf) != 1:
                return NotImplemented
            outs = ex_call_local(ex, st, initf[0], [], fr)
            if len(outs) != 1 or outs[0][2].kind != "return":
                return NotImplemented
            st.heap[cell] = outs[0][2].value
            st.obs.append(("tls-init", cell, outs[0][2].value))
        st.obs.append(("tls-access", cell))
        if mfn:
            # `KEY.with(Cell::get)` and the like: the function item is applied to a reference to the thread's cell
            r = call(ex, st, fr, args[1].name, re.sub(r"::<.*>$", "", args[1].name).split("::")[-1], [E.RefV(box=cell)], None, None)
            return r
        clo = ex.prog.closures.get(norm_type(m.group(1)))
        if clo is None:
            return NotImplemented
        return E._Enter(clo, [args[1], E.RefV(box=cell)])
    m = re.match(r"^(?:std::sync::atomic::|core::sync::atomic::)?Atomic(?:::<(\w+)>|Bool|U8|Usize|U32|I32)::(new|load|store)$", c)
    if m:
        _use("Atomic<T>::new/load/store on a static: one cell shared by all threads (sequentially consistent interleavings)")
        if m.group(2) == "new":
            return args[0]
        if not (isinstance(args[0], E.RefV) and args[0].box is not None and args[0].box[0] == "static"):
            return NotImplemented
        if m.group(2) == "load":
            st.obs.append(("shared-read", args[0].box[1]))
            return ex.read_ref(st, args[0])
        st.obs.append(("shared-write", args[0].box[1]))
        ex.write_ref(st, args[0], args[1])
        return E.UNIT
    if re.match(r"^(std::cell::|core::cell::)?Cell::<.*>::new$", c):
        _use("Cell::new (cell content)")
        return args[0]
    mc = re.match(r"^(std::cell::|core::cell::)?Cell::<.*>::(get|set|replace|take)$", c)
    if mc and isinstance(args[0], E.RefV):
        _use("Cell::get / set / replace (content of the cell the reference points to)")
        if mc.group(2) == "get":
            return ex.read_ref(st, args[0])
        old_v = ex.read_ref(st, args[0])
        if mc.group(2) == "take":
            return NotImplemented
        ex.write_ref(st, args[0], args[1])
        return E.UNIT if mc.group(2) == "set" else old_v
    if re.match(r"^(std::cell::)?RefCell::<.*>::new$", c):
        _use("RefCell::new (cell content)")
        return args[0]
    if re.match(r"^(std::cell::)?RefCell::<.*>::(borrow|borrow_mut)$", c):
        _use("RefCell::borrow / borrow_mut (no re-entrant borrows in the analysed code)")
        return args[0]
    if re.match(r"^<(Ref|RefMut)<.*> as (Deref|DerefMut)>::(deref|deref_mut)$", c):
        _use("Ref/RefMut deref")
        v = args[0]
        inner = ex.read_ref(st, v)
        return inner if isinstance(inner, E.RefV) else v
    return NotImplemented


def _fmt_models(ex, st, fr, c, last, args):
    """observation points at the boundary to core::fmt / alloc::fmt: the arguments are recorded, nothing is rendered"""
    E = _E()
    m = re.match(r"^core::fmt::rt::Argument::<'_>::new_(display|debug)::<(.*)>$", c)
    if m:
        _use("core::fmt::rt::Argument::new_display/new_debug (observation)")
        v = _deref_all(ex, st, args[0])
        return E.Opaque("fmtarg", (m.group(1), m.group(2), v))
    if re.match(r"^core::fmt::rt::Argument::<'_>::from_usize$", c):
        _use("core::fmt::rt::Argument::from_usize (observation)")
        return E.Opaque("fmtarg", ("usize", "usize", _deref_all(ex, st, args[0])))
    if re.match(r"^(core::fmt::)?Arguments::<'_>::new::<\d+, \d+>$", c):
        _use("core::fmt::Arguments::new (observation: template bytes + argument array)")
        tpl = args[0]
        arr = _deref_all(ex, st, args[1])
        return E.Opaque("Arguments", (tpl.s if isinstance(tpl, E.StrV) else tpl, list(arr.fields)))
    if re.match(r"^(core::fmt::)?Arguments::<'_>::from_str$", c):
        return E.Opaque("Arguments", (args[0].s if isinstance(args[0], E.StrV) else args[0], []))
    if c in ("format", "alloc::fmt::format", "std::fmt::format"):
        _use("alloc::fmt::format (observation; rendering is core::fmt's documented behaviour)")
        a = args[0]
        st.obs.append(("format", a.payload))
        return E.Opaque("String", ("format",) + tuple(a.payload))
    if re.match(r"^<(%s) as ToString>::to_string$" % INTS, c):
        _use("<int as ToString>::to_string (observation)")
        v = _deref_all(ex, st, args[0])
        st.obs.append(("int_to_string", v))
        return E.Opaque("String", ("int_to_string", v))
    if re.match(r"^(core::fmt::)?Formatter::<'_>::precision$", c):
        _use("Formatter::precision (environment input)")
        f = _deref_all(ex, st, args[0])
        return f.payload["precision"]
    m = re.match(r"^(core::fmt::)?Formatter::<'_>::(width|sign_plus|sign_minus|sign_aware_zero_pad|alternate|fill)$", c)
    if m:
        _use("Formatter::%s (environment input: the format spec of the caller)" % m.group(2))
        f = _deref_all(ex, st, args[0])
        pl = f.payload if isinstance(f, E.Opaque) and isinstance(f.payload, dict) else {}
        if m.group(2) == "width":
            if "width" in pl:
                return pl["width"]
            # unknown width: None or some usize, decided by a fresh Boolean per formatter
            key = ("fmtwidth", id(f))
            if key not in st.divcache:
                st.divcache[key] = (T.fresh_bool("has_width"), T.fresh_int("width"), f)
                st.defs.append(z3.And(st.divcache[key][1] >= 0, st.divcache[key][1] < (1 << 63)))
            hb, wv, _ = st.divcache[key]
            return E._Alts([(hb, _some(IV(wv, "usize"))), (z3.Not(hb), _none())])
        if m.group(2) == "fill":
            return NotImplemented
        if m.group(2) in pl:
            return pl[m.group(2)]
        key = ("fmtflag", m.group(2), id(f))
        if key not in st.divcache:
            st.divcache[key] = (T.fresh_bool(m.group(2)), f)
        return st.divcache[key][0]
    if re.match(r"^(alloc::string::)?String::len$", c):
        v = _deref_all(ex, st, args[0])
        if isinstance(v, E.Opaque) and v.tag == "String":
            _use("String::len of a rendered string (unknown length: a fresh usize per string)")
            key = ("strlen", id(v))
            if key not in st.divcache:
                st.divcache[key] = (T.fresh_int("len"), v)
                st.defs.append(z3.And(st.divcache[key][0] >= 0, st.divcache[key][0] < (1 << 40)))
            return IV(st.divcache[key][0], "usize")
    if re.match(r"^(core::fmt::)?Formatter::<'_>::pad_integral$", c):
        _use("Formatter::pad_integral (observation; width/fill/alignment/sign handling is core::fmt's documented integer formatting)")
        buf = args[3]
        st.obs.append(("pad_integral", args[1], args[2], buf))
        return E.EnumV("Result", 0, (E.UNIT,))
    if re.match(r"^(core::fmt::)?Formatter::<'_>::write_fmt$", c):
        _use("Formatter::write_fmt (observation)")
        st.obs.append(("write_fmt", args[1].payload))
        return E.EnumV("Result", 0, (E.UNIT,))
    if re.match(r"^(core::fmt::)?Formatter::<'_>::write_str$", c):
        st.obs.append(("write_str", args[1]))
        return E.EnumV("Result", 0, (E.UNIT,))
    if c in ("<String as Deref>::deref", "String::as_str"):
        return _deref_all(ex, st, args[0])
    return NotImplemented
