"""Verification-condition helpers: input construction, VC discharge, models."""
import time
import z3
from . import terms as T
from .terms import ty_range, is_conc, INT_TYPES
from .exec import (State, Frame, Executor, IV, Agg, EnumV, RefV, Outcome, Unsupported, UNIT,
                   _Holder, FV, StrV, SliceV)

MAXC = (1 << 127) - 1


def sym_int(name, ty, st, lo=None, hi=None):
    v = z3.Int(name)
    l, h = ty_range(ty)
    if lo is not None:
        l = max(l, lo)
    if hi is not None:
        h = min(h, hi)
    st.defs.append(z3.And(v >= l, v <= h))
    bnd = dict(st.tags.get("bnd", {}))
    bnd[v.get_id()] = (v, l, h)
    st.tags["bnd"] = bnd
    return IV(v, ty)


def decimal(coeff, scale):
    """Decimal struct value; coeff/scale are IV"""
    return Agg("struct:Decimal", (coeff, scale))


def sym_decimal(name, st, scale, full=False):
    """symbolic Decimal with |coeff| <= 2^127-1 (or whole i128 if full)"""
    c = sym_int(name, "i128", st, lo=None if full else -MAXC)
    if isinstance(scale, int):
        s = IV(scale, "u8")
    else:
        s = scale
    return decimal(c, s)


def ref_to(val):
    """a shared reference to an immutable value"""
    return RefV(box=("const", id(val), _Holder(val)))


def start_state(fdef, args, subst=None, st=None):
    st = st or State()
    fr = Frame(st.next_uid, fdef, subst or {})
    st.next_uid += 1
    for (pname, _), a in zip(fdef.params, args):
        fr.locals[pname] = a
    st.frames.append(fr)
    return st


class VCResult:
    __slots__ = ("status", "model", "time", "name")

    def __init__(self, status, model=None, t=0.0, name=""):
        self.status = status
        self.model = model
        self.time = t
        self.name = name


def check_vc(constraints, goal, timeout_ms=20000, name=""):
    """prove constraints => goal.  Returns VCResult('unsat'|'sat'|'unknown')"""
    t0 = time.time()
    if isinstance(goal, bool):
        if goal:
            return VCResult("unsat", None, 0.0, name)
        neg = True
    else:
        neg = z3.Not(goal)
    s = z3.Solver()
    s.set("timeout", timeout_ms)
    for c in constraints:
        s.add(c)
    if neg is not True:
        s.add(neg)
    r = s.check()
    dt = time.time() - t0
    if r == z3.unsat:
        return VCResult("unsat", None, dt, name)
    if r == z3.sat:
        return VCResult("sat", s.model(), dt, name)
    return VCResult("unknown", None, dt, name)


def smtlib(constraints, goal):
    s = z3.Solver()
    for c in constraints:
        s.add(c)
    s.add(z3.Not(goal) if not isinstance(goal, bool) else z3.BoolVal(not goal))
    return "(set-logic ALL)\n" + s.to_smt2()


def model_int(model, term):
    if is_conc(term):
        return int(term)
    v = model.eval(term, model_completion=True)
    return v.as_long()


# ---- rounding relation (DESIGN.md appendix A) -----------------------------------
MODES = ["Round05Up", "RoundCeiling", "RoundDown", "RoundFloor", "RoundHalfDown", "RoundHalfEven",
         "RoundHalfUp", "RoundUp"]


def rnd_rel(mode, N, D, c):
    """relation 'c is N/D rounded under mode' for integer terms, D > 0 (python int or term)"""
    N, c = T.I(N), T.I(c)
    Dt = T.I(D)
    cD = c * Dt
    below = z3.And(cD <= N, N < cD + Dt)
    above = z3.And(cD - Dt < N, N <= cD)
    exact = (cD == N)
    tz = z3.If(N >= 0, below, above)
    az = z3.If(N >= 0, above, below)
    diff2 = 2 * (N - cD)
    absdiff2 = z3.If(diff2 >= 0, diff2, -diff2)
    near = absdiff2 <= Dt
    tie = absdiff2 == Dt
    m = MODES[mode] if isinstance(mode, int) else mode
    if m == "RoundFloor":
        return below
    if m == "RoundCeiling":
        return above
    if m == "RoundDown":
        return tz
    if m == "RoundUp":
        return az
    if m == "RoundHalfEven":
        return z3.And(near, z3.Implies(tie, c % 2 == 0))
    if m == "RoundHalfUp":
        return z3.And(near, z3.Implies(tie, az))
    if m == "RoundHalfDown":
        return z3.And(near, z3.Implies(tie, tz))
    if m == "Round05Up":
        sgn = z3.If(N >= 0, 1, -1)
        return z3.Or(exact, z3.And(tz, c % 5 != 0), z3.And(az, z3.Not(exact), (c - sgn) % 5 == 0))
    raise ValueError(m)


def rnd_conc(mode, N, D):
    """concrete rounding of N/D (D>0) per mode; reference implementation for replay"""
    m = MODES[mode] if isinstance(mode, int) else mode
    q, r = divmod(N, D)    # floor
    if r == 0:
        return q
    if m == "RoundFloor":
        return q
    if m == "RoundCeiling":
        return q + 1
    if m == "RoundDown":
        return q if N >= 0 else q + 1
    if m == "RoundUp":
        return q + 1 if N >= 0 else q
    if m in ("RoundHalfEven", "RoundHalfUp", "RoundHalfDown"):
        if 2 * r > D:
            return q + 1
        if 2 * r < D:
            return q
        if m == "RoundHalfEven":
            return q if q % 2 == 0 else q + 1
        if m == "RoundHalfUp":
            return q + 1 if N >= 0 else q
        return q if N >= 0 else q + 1
    if m == "Round05Up":
        tz = q if N >= 0 else q + 1
        if tz % 5 == 0:
            return tz + (1 if N >= 0 else -1)
        return tz
    raise ValueError(m)


def check_vc_portfolio(constraints, goal, timeout_ms=600000, name="", seeds=(0, 1, 2), workdir="/verif/build/smt"):
    """Decide a hard VC with a portfolio of z3 (5.x CLI) processes that differ in their random seed;
    the first definitive answer wins.  Returns VCResult; 'sat' carries no model (callers re-query)."""
    import os
    import subprocess
    import tempfile
    t0 = time.time()
    os.makedirs(workdir, exist_ok=True)
    txt = smtlib(constraints, goal) + "\n(check-sat)\n"
    fd, path = tempfile.mkstemp(suffix=".smt2", dir=workdir)
    with os.fdopen(fd, "w") as f:
        f.write("; %s\n" % name)
        f.write(txt)
    procs = []
    for s in seeds:
        cmd = ["z3-new", "smt.random_seed=%d" % s, "sat.random_seed=%d" % s, "-T:%d" % max(1, timeout_ms // 1000), path]
        procs.append(subprocess.Popen(cmd, stdout=subprocess.PIPE, stderr=subprocess.STDOUT, universal_newlines=True))
    status = "unknown"
    try:
        pending = list(procs)
        while pending and time.time() - t0 < timeout_ms / 1000.0 + 5:
            for p in list(pending):
                rc = p.poll()
                if rc is None:
                    continue
                pending.remove(p)
                out = p.stdout.read()
                first = out.strip().split("\n")[0] if out.strip() else ""
                if "(error" in out:
                    continue
                if first in ("unsat", "sat"):
                    status = first
                    pending = []
                    break
            else:
                time.sleep(0.2)
                continue
            break
    finally:
        for p in procs:
            if p.poll() is None:
                p.kill()
        for p in procs:
            try:
                p.wait(timeout=5)
            except Exception:
                pass
        try:
            os.remove(path)
        except OSError:
            pass
    return VCResult(status, None, time.time() - t0, name)
