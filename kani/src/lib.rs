//! Kani harnesses over the real code of /repo (path dependency): byte- and bit-level properties.
#![allow(dead_code)]

#[cfg(kani)]
mod magnitude {
    use fpdec::Decimal;

    const P10: [u128; 39] = {
        let mut t = [1u128; 39];
        let mut i = 1;
        while i < 39 {
            t[i] = t[i - 1] * 10;
            i += 1;
        }
        t
    };

    /// i128_magnitude(i) = floor(log10 |i|) for every i128 (0 for 0): justifies the contract used by mir2smt
    #[kani::proof]
    fn i128_magnitude_all() {
        let i: i128 = kani::any();
        let m = fpdec_core::i128_magnitude(i) as usize;
        let a = i.unsigned_abs();
        assert!(m <= 38);
        if a == 0 {
            assert!(m == 0);
        } else {
            assert!(P10[m] <= a);
            assert!(m == 38 || a < P10[m + 1]);
        }
    }

    /// Decimal::magnitude for every coefficient and scale: position of the most significant digit, 0 for any zero
    #[kani::proof]
    fn decimal_magnitude_all() {
        let c: i128 = kani::any();
        let p: u8 = kani::any();
        kani::assume(p <= 18);
        kani::assume(c != i128::MIN);
        let d = Decimal::new_raw(c, p);
        let m = d.magnitude() as i32;
        let a = c.unsigned_abs();
        if a == 0 {
            assert!(m == 0);
        } else {
            let k = m + p as i32; // index of the leading digit of the coefficient
            assert!(k >= 0 && k <= 38);
            assert!(P10[k as usize] <= a);
            assert!(k == 38 || a < P10[(k + 1) as usize]);
        }
        kani::cover!(a == 0 && p > 0);
        kani::cover!(m < 0);
    }
}
