//! Kani harnesses over the real code of /repo (path dependency): byte- and bit-level properties.
#![allow(dead_code)]

#[cfg(kani)]
mod magnitude {
    use fpdec::Decimal;

    const P10: [u128; 39] = {
        let mut t = [1u128; 39];
        let mut i = 1;
        while i < 39 {
            t[i] = t[i - 1] * 10;
            i += 1;
        }
        t
    };

    /// i128_magnitude(i) = floor(log10 |i|) for every i128 (0 for 0): justifies the contract used by mir2smt
    #[kani::proof]
    fn i128_magnitude_all() {
        let i: i128 = kani::any();
        let m = fpdec_core::i128_magnitude(i) as usize;
        let a = i.unsigned_abs();
        assert!(m <= 38);
        if a == 0 {
            assert!(m == 0);
        } else {
            assert!(P10[m] <= a);
            assert!(m == 38 || a < P10[m + 1]);
        }
    }

    /// Decimal::magnitude for every coefficient and scale: position of the most significant digit, 0 for any zero
    #[kani::proof]
    fn decimal_magnitude_all() {
        let c: i128 = kani::any();
        let p: u8 = kani::any();
        kani::assume(p <= 18);
        kani::assume(c != i128::MIN);
        let d = Decimal::new_raw(c, p);
        let m = d.magnitude() as i32;
        let a = c.unsigned_abs();
        if a == 0 {
            assert!(m == 0);
        } else {
            let k = m + p as i32; // index of the leading digit of the coefficient
            assert!(k >= 0 && k <= 38);
            assert!(P10[k as usize] <= a);
            assert!(k == 38 || a < P10[(k + 1) as usize]);
        }
        kani::cover!(a == 0 && p > 0);
        kani::cover!(m < 0);
    }
}

#[cfg(kani)]
mod parser {
    use fpdec::ParseDecimalError;

    const MAXC: u128 = i128::MAX as u128;
    const P10: [u128; 39] = {
        let mut t = [1u128; 39];
        let mut i = 1;
        while i < 39 {
            t[i] = t[i - 1] * 10;
            i += 1;
        }
        t
    };

    /// Reference recogniser / evaluator for the literal grammar of property C06, written independently of the parser:
    /// `[+|-](digits[.digits*] | .digits)[(e|E)[+|-]digits]`; returns Some((coefficient, fractional digits)) iff the literal must be accepted.
    /// Only used on inputs of at most 16 bytes (mantissa < 10^16), so u128 arithmetic below cannot overflow except where checked.
    pub fn oracle(b: &[u8]) -> Option<(i128, u8)> {
        let n = b.len();
        let mut i = 0usize;
        let mut neg = false;
        if i < n && (b[i] == b'+' || b[i] == b'-') {
            neg = b[i] == b'-';
            i += 1;
        }
        let mut mant: u128 = 0;
        let mut ni = 0usize;
        let mut nf = 0usize;
        while i < n && b[i].wrapping_sub(b'0') < 10 {
            mant = mant * 10 + (b[i] - b'0') as u128;
            ni += 1;
            i += 1;
        }
        if i < n && b[i] == b'.' {
            i += 1;
            while i < n && b[i].wrapping_sub(b'0') < 10 {
                mant = mant * 10 + (b[i] - b'0') as u128;
                nf += 1;
                i += 1;
            }
            if ni == 0 && nf == 0 {
                return None;
            }
        } else if ni == 0 {
            return None;
        }
        let mut exp: i64 = 0;
        if i < n && (b[i] == b'e' || b[i] == b'E') {
            i += 1;
            let mut eneg = false;
            if i < n && (b[i] == b'+' || b[i] == b'-') {
                eneg = b[i] == b'-';
                i += 1;
            }
            let mut ne = 0usize;
            while i < n && b[i].wrapping_sub(b'0') < 10 {
                if exp < 1_000_000 {
                    exp = exp * 10 + (b[i] - b'0') as i64;
                }
                ne += 1;
                i += 1;
            }
            if ne == 0 {
                return None;
            }
            if eneg {
                exp = -exp;
            }
        }
        if i != n {
            return None;
        }
        let scale = nf as i64 - exp;
        if scale > 18 {
            return None;
        }
        if scale >= 0 {
            let c = mant as i128;
            return Some((if neg { -c } else { c }, scale as u8));
        }
        if mant == 0 {
            return Some((0, 0));
        }
        let k = -scale;
        if k > 38 {
            return None;
        }
        let c = match mant.checked_mul(P10[k as usize]) {
            Some(c) => c,
            None => return None,
        };
        if c > MAXC {
            return None;
        }
        let c = c as i128;
        Some((if neg { -c } else { c }, 0))
    }

    /// literal level: Some((coefficient, exponent)) with value = coefficient * 10^exponent, as `fpdec_core::str_to_dec` has to return it
    /// (no 128-bit multiplication: the folding of the exponent in `Decimal::from_str` is verified separately by mir2smt)
    pub fn oracle_pair(b: &[u8]) -> Option<(i128, i64)> {
        let n = b.len();
        let mut i = 0usize;
        let mut neg = false;
        if i < n && (b[i] == b'+' || b[i] == b'-') {
            neg = b[i] == b'-';
            i += 1;
        }
        let mut mant: u64 = 0; // at most 16 digits
        let mut ni = 0usize;
        let mut nf = 0usize;
        while i < n && b[i].wrapping_sub(b'0') < 10 {
            mant = mant * 10 + (b[i] - b'0') as u64;
            ni += 1;
            i += 1;
        }
        if i < n && b[i] == b'.' {
            i += 1;
            while i < n && b[i].wrapping_sub(b'0') < 10 {
                mant = mant * 10 + (b[i] - b'0') as u64;
                nf += 1;
                i += 1;
            }
            if ni == 0 && nf == 0 {
                return None;
            }
        } else if ni == 0 {
            return None;
        }
        let mut exp: i64 = 0;
        if i < n && (b[i] == b'e' || b[i] == b'E') {
            i += 1;
            let mut eneg = false;
            if i < n && (b[i] == b'+' || b[i] == b'-') {
                eneg = b[i] == b'-';
                i += 1;
            }
            let mut ne = 0usize;
            while i < n && b[i].wrapping_sub(b'0') < 10 {
                if exp < 1_000_000 {
                    exp = exp * 10 + (b[i] - b'0') as i64;
                }
                ne += 1;
                i += 1;
            }
            if ne == 0 {
                return None;
            }
            if eneg {
                exp = -exp;
            }
        }
        if i != n {
            return None;
        }
        let e = exp - nf as i64;
        if -e > 18 {
            return None;
        }
        let c = mant as i128;
        if c == 0 {
            return Some((0, if e > 0 { 0 } else { e }));
        }
        Some((if neg { -c } else { c }, e))
    }

    fn check(b: &[u8]) {
        if let Ok(s) = core::str::from_utf8(b) {
            let want = oracle_pair(b);
            match fpdec_core::str_to_dec(s) {
                Ok((c, e)) => {
                    assert!(want.is_some(), "accepted a string outside the grammar / limits");
                    let (wc, we) = want.unwrap();
                    assert!(c == wc, "wrong coefficient");
                    // exponents of 10^6 and more are only capped (the oracle stops accumulating there) (they are rejected by every caller: > 38)
                    assert!(if we >= 1_000_000 { e > 38 } else { e as i64 == we }, "wrong exponent");
                }
                Err(e) => {
                    assert!(want.is_none(), "rejected a valid literal");
                    assert!((e == ParseDecimalError::Empty) == b.is_empty(), "Empty iff empty string");
                }
            }
            kani::cover!(want.is_some());
        }
    }

    macro_rules! all_strings {
        ($name:ident, $n:expr, $unw:expr) => {
            /// every byte string of exactly $n bytes that is valid UTF-8
            #[kani::proof]
            #[kani::unwind($unw)]
            fn $name() {
                let b: [u8; $n] = kani::any();
                check(&b);
            }
        };
    }
    all_strings!(all_strings_len0, 0, 3);
    all_strings!(all_strings_len1, 1, 4);
    all_strings!(all_strings_len2, 2, 5);
    all_strings!(all_strings_len3, 3, 6);
    all_strings!(all_strings_len4, 4, 7);
    all_strings!(all_strings_len5, 5, 8);
    all_strings!(all_strings_len6, 6, 9);
    all_strings!(all_strings_len7, 7, 10);
    all_strings!(all_strings_len8, 8, 11);

    macro_rules! ascii_strings {
        ($name:ident, $n:expr, $unw:expr) => {
            /// every ASCII string of exactly $n bytes over the alphabet that matters to the parser plus one arbitrary other byte class
            #[kani::proof]
            #[kani::unwind($unw)]
            fn $name() {
                let b: [u8; $n] = kani::any();
                let mut i = 0;
                while i < $n {
                    kani::assume(b[i] < 128);
                    i += 1;
                }
                check(&b);
            }
        };
    }
    ascii_strings!(ascii_strings_len9, 9, 12);
    ascii_strings!(ascii_strings_len10, 10, 13);
    ascii_strings!(ascii_strings_len11, 11, 14);
    ascii_strings!(ascii_strings_len12, 12, 15);

    macro_rules! exponent_strings {
        ($name:ident, $n:expr, $unw:expr) => {
            /// <1..3 mantissa digits> (e|E) [sign] <exponent digits>: exponent accumulation, clamp, limits; total length $n
            #[kani::proof]
            #[kani::unwind($unw)]
            fn $name() {
                let b: [u8; $n] = kani::any();
                let m: usize = kani::any();
                kani::assume(m >= 1 && m <= 3);
                let mut i = 0;
                while i < $n {
                    if i < m {
                        kani::assume(b[i].wrapping_sub(b'0') < 10);
                    } else if i == m {
                        kani::assume(b[i] == b'e' || b[i] == b'E');
                    } else if i == m + 1 {
                        kani::assume(b[i] == b'+' || b[i] == b'-' || b[i].wrapping_sub(b'0') < 10);
                    } else {
                        kani::assume(b[i].wrapping_sub(b'0') < 10);
                    }
                    i += 1;
                }
                check(&b);
            }
        };
    }
    exponent_strings!(exponent_strings_len13, 13, 16);
    exponent_strings!(exponent_strings_len14, 14, 17);
    exponent_strings!(exponent_strings_len16, 16, 19);
}

#[cfg(all(kani, fpdec_verif))]
mod swar {
    use fpdec_core::verif_hooks::{chunk_contains_8_digits, chunk_to_u64};

    /// chunk_contains_8_digits(k) <=> all 8 bytes of k are ASCII digits, for every u64
    #[kani::proof]
    #[kani::unwind(10)]
    fn chunk_contains_8_digits_all() {
        let k: u64 = kani::any();
        let b = k.to_le_bytes();
        let mut all = true;
        let mut i = 0;
        while i < 8 {
            if b[i].wrapping_sub(b'0') >= 10 {
                all = false;
            }
            i += 1;
        }
        assert!(chunk_contains_8_digits(k) == all);
    }

    /// chunk_to_u64(k) = decimal value of the 8 digits (first byte most significant), for every chunk of 8 digits
    #[kani::proof]
    #[kani::unwind(10)]
    fn chunk_to_u64_all() {
        let b: [u8; 8] = kani::any();
        let mut v: u64 = 0;
        let mut i = 0;
        while i < 8 {
            kani::assume(b[i].wrapping_sub(b'0') < 10);
            v = v * 10 + (b[i] - b'0') as u64;
            i += 1;
        }
        assert!(chunk_to_u64(u64::from_le_bytes(b)) == v);
    }
}

#[cfg(all(kani, feature = "rkyv"))]
mod rkyv_roundtrip {
    use fpdec::{ArchivedDecimal, Decimal};
    use rkyv::{Archive, Deserialize, Infallible, Serialize};

    /// archiving (Serialize -> resolver, Archive::resolve into uninitialised memory) and deserialising is the identity,
    /// and the archived accessors return the original coefficient / scale - for every coefficient and scale
    #[kani::proof]
    fn rkyv_resolve_deserialize_identity() {
        let c: i128 = kani::any();
        let p: u8 = kani::any();
        kani::assume(p <= 18);
        let d = Decimal::new_raw(c, p);
        let resolver = Serialize::<Infallible>::serialize(&d, &mut Infallible).unwrap();
        let mut out = core::mem::MaybeUninit::<ArchivedDecimal>::uninit();
        unsafe {
            d.resolve(0, resolver, out.as_mut_ptr());
        }
        let a: ArchivedDecimal = unsafe { out.assume_init() };
        assert!(a.coefficient() == c);
        assert!(a.n_frac_digits() == p);
        let back: Decimal = Deserialize::<Decimal, Infallible>::deserialize(&a, &mut Infallible).unwrap();
        assert!(back.coefficient() == c);
        assert!(back.n_frac_digits() == p);
    }
}
