#![allow(clippy::all)]
#[inline(never)]
pub fn t_wrapping_add(a: i128, b: i128) -> i128 {
    let _ = b;
    a.wrapping_add(b)
}

#[inline(never)]
pub fn t_wrapping_sub(a: i128, b: i128) -> i128 {
    let _ = b;
    a.wrapping_sub(b)
}

#[inline(never)]
pub fn t_wrapping_mul(a: i128, b: i128) -> i128 {
    let _ = b;
    a.wrapping_mul(b)
}

#[inline(never)]
pub fn t_checked_add(a: i128, b: i128) -> Option<i128> {
    let _ = b;
    a.checked_add(b)
}

#[inline(never)]
pub fn t_checked_sub(a: i128, b: i128) -> Option<i128> {
    let _ = b;
    a.checked_sub(b)
}

#[inline(never)]
pub fn t_checked_mul(a: i128, b: i128) -> Option<i128> {
    let _ = b;
    a.checked_mul(b)
}

#[inline(never)]
pub fn t_saturating_add(a: i128, b: i128) -> i128 {
    let _ = b;
    a.saturating_add(b)
}

#[inline(never)]
pub fn t_saturating_sub(a: i128, b: i128) -> i128 {
    let _ = b;
    a.saturating_sub(b)
}

#[inline(never)]
pub fn t_saturating_mul(a: i128, b: i128) -> i128 {
    let _ = b;
    a.saturating_mul(b)
}

#[inline(never)]
pub fn t_overflowing_add(a: i128, b: i128) -> (i128, bool) {
    let _ = b;
    a.overflowing_add(b)
}

#[inline(never)]
pub fn t_overflowing_sub(a: i128, b: i128) -> (i128, bool) {
    let _ = b;
    a.overflowing_sub(b)
}

#[inline(never)]
pub fn t_overflowing_mul(a: i128, b: i128) -> (i128, bool) {
    let _ = b;
    a.overflowing_mul(b)
}

#[inline(never)]
pub fn t_plain_add(a: i128, b: i128) -> i128 {
    let _ = b;
    a + b
}

#[inline(never)]
pub fn t_plain_sub(a: i128, b: i128) -> i128 {
    let _ = b;
    a - b
}

#[inline(never)]
pub fn t_plain_mul(a: i128, b: i128) -> i128 {
    let _ = b;
    a * b
}

#[inline(never)]
pub fn t_plain_div(a: i128, b: i128) -> i128 {
    let _ = b;
    a / b
}

#[inline(never)]
pub fn t_plain_rem(a: i128, b: i128) -> i128 {
    let _ = b;
    a % b
}

#[inline(never)]
pub fn t_plain_neg(a: i128, b: i128) -> i128 {
    let _ = b;
    -a
}

#[inline(never)]
pub fn t_wrapping_neg(a: i128, b: i128) -> i128 {
    let _ = b;
    a.wrapping_neg()
}

#[inline(never)]
pub fn t_checked_neg(a: i128, b: i128) -> Option<i128> {
    let _ = b;
    a.checked_neg()
}

#[inline(never)]
pub fn t_wrapping_abs(a: i128, b: i128) -> i128 {
    let _ = b;
    a.wrapping_abs()
}

#[inline(never)]
pub fn t_checked_abs(a: i128, b: i128) -> Option<i128> {
    let _ = b;
    a.checked_abs()
}

#[inline(never)]
pub fn t_abs(a: i128, b: i128) -> i128 {
    let _ = b;
    a.abs()
}

#[inline(never)]
pub fn t_unsigned_abs(a: i128, b: i128) -> u128 {
    let _ = b;
    a.unsigned_abs()
}

#[inline(never)]
pub fn t_abs_diff(a: i128, b: i128) -> u128 {
    let _ = b;
    a.abs_diff(b)
}

#[inline(never)]
pub fn t_signum(a: i128, b: i128) -> i128 {
    let _ = b;
    a.signum()
}

#[inline(never)]
pub fn t_checked_div(a: i128, b: i128) -> Option<i128> {
    let _ = b;
    a.checked_div(b)
}

#[inline(never)]
pub fn t_checked_rem(a: i128, b: i128) -> Option<i128> {
    let _ = b;
    a.checked_rem(b)
}

#[inline(never)]
pub fn t_ord_min(a: i128, b: i128) -> i128 {
    let _ = b;
    Ord::min(a, b)
}

#[inline(never)]
pub fn t_ord_max(a: i128, b: i128) -> i128 {
    let _ = b;
    Ord::max(a, b)
}

#[inline(never)]
pub fn t_cmp_min(a: i128, b: i128) -> i128 {
    let _ = b;
    core::cmp::min(a, b)
}

#[inline(never)]
pub fn t_cmp_max(a: i128, b: i128) -> i128 {
    let _ = b;
    core::cmp::max(a, b)
}

#[inline(never)]
pub fn t_is_negative(a: i128, b: i128) -> bool {
    let _ = b;
    a.is_negative()
}

#[inline(never)]
pub fn t_is_positive(a: i128, b: i128) -> bool {
    let _ = b;
    a.is_positive()
}

#[inline(never)]
pub fn t_pow3(a: i128, b: i128) -> i128 {
    let _ = b;
    a.pow(3)
}

#[inline(never)]
pub fn t_xor_sign(a: i128, b: i128) -> bool {
    let _ = b;
    (a ^ b) < 0
}

#[inline(never)]
pub fn t_lt(a: i128, b: i128) -> bool {
    let _ = b;
    a < b
}

#[inline(never)]
pub fn t_le(a: i128, b: i128) -> bool {
    let _ = b;
    a <= b
}

#[inline(never)]
pub fn t_eq(a: i128, b: i128) -> bool {
    let _ = b;
    a == b
}

#[inline(never)]
pub fn t_ne(a: i128, b: i128) -> bool {
    let _ = b;
    a != b
}

#[inline(never)]
pub fn t_cast_u64(a: i128, b: i128) -> i128 {
    let _ = b;
    (a as u64) as i128
}

#[inline(never)]
pub fn t_cast_u8(a: i128, b: i128) -> i128 {
    let _ = b;
    (a as u8) as i128
}

#[inline(never)]
pub fn t_cast_i64(a: i128, b: i128) -> i128 {
    let _ = b;
    (a as i64) as i128
}

#[inline(never)]
pub fn t_cast_i8(a: i128, b: i128) -> i128 {
    let _ = b;
    (a as i8) as i128
}

#[inline(never)]
pub fn t_cast_u128(a: i128, b: i128) -> u128 {
    let _ = b;
    a as u128
}

#[inline(never)]
pub fn t_shr5(a: i128, b: i128) -> i128 {
    let _ = b;
    a >> 5
}

#[inline(never)]
pub fn t_shr64(a: i128, b: i128) -> i128 {
    let _ = b;
    a >> 64
}

#[inline(never)]
pub fn t_shl3(a: i128, b: i128) -> i128 {
    let _ = b;
    a.wrapping_shl(3)
}

#[inline(never)]
pub fn t_lz_u128(a: i128, b: i128) -> i128 {
    let _ = b;
    (a as u128).leading_zeros() as i128
}

#[inline(never)]
pub fn t_tz_u128(a: i128, b: i128) -> i128 {
    let _ = b;
    (a as u128).trailing_zeros() as i128
}

#[inline(never)]
pub fn t_lz_u64(a: i128, b: i128) -> i128 {
    let _ = b;
    (a as u64).leading_zeros() as i128
}

#[inline(never)]
pub fn t_tz_u64(a: i128, b: i128) -> i128 {
    let _ = b;
    (a as u64).trailing_zeros() as i128
}

#[inline(never)]
pub fn t_and_mask(a: i128, b: i128) -> u128 {
    let _ = b;
    (a as u128) & 0xffff_ffff_ffff_ffff
}

#[inline(never)]
pub fn t_and_hi(a: i128, b: i128) -> u128 {
    let _ = b;
    (a as u128) & 0xffff_ffff_ffff_ffff_0000_0000_0000_0000
}

#[inline(never)]
pub fn t_low_or(a: i128, b: i128) -> u128 {
    let _ = b;
    ((a as u128) << 64) | ((b as u128) & 0xffff_ffff)
}

#[inline(never)]
pub fn t_u_wrapping_neg(a: i128, b: i128) -> u128 {
    let _ = b;
    (a as u128).wrapping_neg()
}

#[inline(never)]
pub fn t_u_checked_sub(a: i128, b: i128) -> Option<u128> {
    let _ = b;
    (a as u128).checked_sub(b as u128)
}

#[inline(never)]
pub fn t_u_saturating_sub(a: i128, b: i128) -> u128 {
    let _ = b;
    (a as u128).saturating_sub(b as u128)
}

#[inline(never)]
pub fn t_u_div(a: i128, b: i128) -> u128 {
    let _ = b;
    (a as u128) / (b as u128)
}

#[inline(never)]
pub fn t_u_rem(a: i128, b: i128) -> u128 {
    let _ = b;
    (a as u128) % (b as u128)
}

#[inline(never)]
pub fn t_opt_unwrap_or(a: i128, b: i128) -> i128 {
    let _ = b;
    a.checked_add(b).unwrap_or(7)
}

#[inline(never)]
pub fn t_opt_map(a: i128, b: i128) -> Option<i128> {
    let _ = b;
    a.checked_add(b).map(|x| x.wrapping_mul(3))
}

#[inline(never)]
pub fn t_opt_and_then(a: i128, b: i128) -> Option<i128> {
    let _ = b;
    a.checked_add(b).and_then(|x| x.checked_mul(2))
}

#[inline(never)]
pub fn t_opt_ok_or(a: i128, b: i128) -> bool {
    let _ = b;
    a.checked_mul(b).ok_or(()).is_ok()
}

#[inline(never)]
pub fn t_opt_unwrap_or_else(a: i128, b: i128) -> i128 {
    let _ = b;
    a.checked_sub(b).unwrap_or_else(|| -1)
}

#[inline(never)]
pub fn t_opt_expect(a: i128, b: i128) -> i128 {
    let _ = b;
    a.checked_add(b).expect("sum overflows")
}

#[inline(never)]
pub fn t_opt_unwrap(a: i128, b: i128) -> i128 {
    let _ = b;
    a.checked_mul(b).unwrap()
}

#[inline(never)]
pub fn t_opt_or(a: i128, b: i128) -> Option<i128> {
    let _ = b;
    a.checked_add(b).or(b.checked_neg())
}

#[inline(never)]
pub fn t_opt_is_some(a: i128, b: i128) -> bool {
    let _ = b;
    a.checked_div(b).is_some()
}

#[inline(never)]
pub fn t_res_ok(a: i128, b: i128) -> Option<i128> {
    let _ = b;
    i64::try_from(a).ok().map(|x| x as i128)
}

#[inline(never)]
pub fn t_res_map(a: i128, b: i128) -> bool {
    let _ = b;
    u8::try_from(a).map(|x| x > 7).unwrap_or(false)
}

#[inline(never)]
pub fn t_res_unwrap_or(a: i128, b: i128) -> i128 {
    let _ = b;
    i32::try_from(a).unwrap_or(-5) as i128
}

#[inline(never)]
pub fn t_try_from_u64(a: i128, b: i128) -> Option<i128> {
    let _ = b;
    u64::try_from(a).ok().map(|x| x as i128)
}

#[inline(never)]
pub fn t_mem_swap(a: i128, b: i128) -> i128 {
    let _ = b;
    { let mut x = a; let mut y = b; core::mem::swap(&mut x, &mut y); x.wrapping_sub(y) }
}

#[inline(never)]
pub fn t_mem_replace(a: i128, b: i128) -> i128 {
    let _ = b;
    { let mut x = a; let old = core::mem::replace(&mut x, b); old.wrapping_add(x.wrapping_mul(2)) }
}

#[inline(never)]
pub fn t_opt_take(a: i128, b: i128) -> Option<i128> {
    let _ = b;
    { let mut o = a.checked_add(b); let t = o.take(); if o.is_none() { t } else { None } }
}

#[inline(never)]
pub fn t_bool_then(a: i128, b: i128) -> Option<i128> {
    let _ = b;
    (a > b).then(|| a.wrapping_sub(b))
}

#[inline(never)]
pub fn t_from_u8(a: i128, b: i128) -> i128 {
    let _ = b;
    i128::from(a as u8)
}

#[inline(never)]
pub fn t_from_i64(a: i128, b: i128) -> i128 {
    let _ = b;
    i128::from(a as i64)
}

#[inline(never)]
pub fn t_wrapping_shr7(a: i128, b: i128) -> i128 {
    let _ = b;
    a.wrapping_shr(7)
}

#[inline(never)]
pub fn t_wrapping_shl131(a: i128, b: i128) -> i128 {
    let _ = b;
    a.wrapping_shl(131)
}

#[inline(never)]
pub fn t_pow2(a: i128, b: i128) -> i128 {
    let _ = b;
    a.pow(2)
}

#[inline(never)]
pub fn t_checked_pow(a: i128, b: i128) -> Option<i128> {
    let _ = b;
    7i128.checked_pow((a as u32) % 60)
}

#[inline(never)]
pub fn t_f64_gt(a: i128, b: i128) -> bool {
    let _ = b;
    f64::from_bits(a as u64) > f64::from_bits(b as u64)
}

#[inline(never)]
pub fn t_f64_le(a: i128, b: i128) -> bool {
    let _ = b;
    f64::from_bits(a as u64) <= f64::from_bits(b as u64)
}

#[inline(never)]
pub fn t_f64_eq(a: i128, b: i128) -> bool {
    let _ = b;
    f64::from_bits(a as u64) == f64::from_bits(b as u64)
}

#[inline(never)]
pub fn t_f64_ne(a: i128, b: i128) -> bool {
    let _ = b;
    f64::from_bits(a as u64) != f64::from_bits(b as u64)
}

#[inline(never)]
pub fn t_f64_lt(a: i128, b: i128) -> bool {
    let _ = b;
    f64::from_bits(a as u64) < f64::from_bits(b as u64)
}

#[inline(never)]
pub fn t_f32_gt(a: i128, b: i128) -> bool {
    let _ = b;
    f32::from_bits(a as u32) > f32::from_bits(b as u32)
}

#[inline(never)]
pub fn t_f32_ge(a: i128, b: i128) -> bool {
    let _ = b;
    f32::from_bits(a as u32) >= f32::from_bits(b as u32)
}

#[inline(never)]
pub fn t_f64_to_i128(a: i128, b: i128) -> i128 {
    let _ = b;
    f64::from_bits(a as u64) as i128
}

#[inline(never)]
pub fn t_f64_to_u8(a: i128, b: i128) -> i128 {
    let _ = b;
    (f64::from_bits(a as u64) as u8) as i128
}

#[inline(never)]
pub fn t_f32_to_i128(a: i128, b: i128) -> i128 {
    let _ = b;
    f32::from_bits(a as u32) as i128
}

#[inline(never)]
pub fn t_f64_to_i64(a: i128, b: i128) -> i128 {
    let _ = b;
    (f64::from_bits(a as u64) as i64) as i128
}

#[inline(never)]
pub fn t_i128_to_f64(a: i128, b: i128) -> i128 {
    let _ = b;
    (a as f64).to_bits() as i128
}

#[inline(never)]
pub fn t_i128_to_f32(a: i128, b: i128) -> i128 {
    let _ = b;
    (a as f32).to_bits() as i128
}

#[inline(never)]
pub fn t_u64_to_f64(a: i128, b: i128) -> i128 {
    let _ = b;
    ((a as u64) as f64).to_bits() as i128
}

#[inline(never)]
pub fn t_f64_is_nan(a: i128, b: i128) -> bool {
    let _ = b;
    f64::from_bits(a as u64).is_nan()
}

#[inline(never)]
pub fn t_f64_is_inf(a: i128, b: i128) -> bool {
    let _ = b;
    f64::from_bits(a as u64).is_infinite()
}

#[inline(never)]
pub fn t_f64_gt_max(a: i128, b: i128) -> bool {
    let _ = b;
    f64::from_bits(a as u64) > i128::MAX as f64
}

#[inline(never)]
pub fn t_f64_lt_min(a: i128, b: i128) -> bool {
    let _ = b;
    f64::from_bits(a as u64) < i128::MIN as f64
}

#[inline(never)]
pub fn t_range_sum(a: i128, b: i128) -> i128 {
    let _ = b;
    { let mut s: i128 = 0; for i in 0..((a as u8) % 7) { s = s.wrapping_add(b.wrapping_mul(i as i128 + 1)); } s }
}

#[inline(never)]
pub fn t_range_incl(a: i128, b: i128) -> i128 {
    let _ = b;
    { let mut s: i128 = 1; for _ in 1..=((a as u8) % 5) { s = s.wrapping_mul(10); } s.wrapping_add(b) }
}

#[inline(never)]
pub fn t_rem_euclid(a: i128, b: i128) -> i128 {
    let _ = b;
    a.rem_euclid(if b == 0 { 7 } else if b == -1 { -3 } else { b })
}

#[inline(never)]
pub fn t_div_euclid(a: i128, b: i128) -> i128 {
    let _ = b;
    a.div_euclid(if b == 0 { 7 } else if b == -1 { -3 } else { b })
}

#[inline(never)]
pub fn t_ilog10(a: i128, b: i128) -> i128 {
    let _ = b;
    (a.unsigned_abs().max(1)).ilog10() as i128
}

#[inline(never)]
pub fn t_map_or(a: i128, b: i128) -> i128 {
    let _ = b;
    a.checked_add(b).map_or(-9, |x| x.wrapping_sub(1))
}

#[inline(never)]
pub fn t_opt_filter(a: i128, b: i128) -> Option<i128> {
    let _ = b;
    a.checked_sub(b).filter(|x| *x > 5)
}

#[inline(never)]
pub fn t_opt_zip(a: i128, b: i128) -> i128 {
    let _ = b;
    a.checked_add(1).zip(b.checked_sub(1)).map_or(0, |(x, y)| x.wrapping_add(y))
}

#[inline(never)]
pub fn t_is_some_and(a: i128, b: i128) -> bool {
    let _ = b;
    a.checked_mul(b).is_some_and(|x| x % 2 == 0)
}

#[inline(never)]
pub fn t_tuple_match(a: i128, b: i128) -> i128 {
    let _ = b;
    match (a.signum(), b.signum()) { (1, 1) => 1, (-1, -1) => 2, (0, _) | (_, 0) => 0, _ => -1 }
}

#[inline(never)]
pub fn t_table_lookup(a: i128, b: i128) -> i128 {
    let _ = b;
    { const T: [i128; 4] = [1, 10, 100, 1000]; T[(a as u8 % 4) as usize].wrapping_mul(b) }
}

#[inline(never)]
pub fn t_while_loop(a: i128, b: i128) -> i128 {
    let _ = b;
    { let mut x = a.unsigned_abs() % 1000; let mut n: i128 = 0; while x > 0 { x /= 10; n += 1; } n }
}

#[inline(never)]
pub fn t_count_ones(a: i128, b: i128) -> i128 {
    let _ = b;
    (a as u64).count_ones() as i128
}

#[inline(never)]
pub fn t_u128_mid(a: i128, b: i128) -> i128 {
    let _ = b;
    (((a as u128 as u64 as u128) * (b as u128 as u64 as u128)) >> 64) as i128
}

#[inline(never)]
pub fn t_clamp_i(a: i128, b: i128) -> i128 {
    let _ = b;
    a.clamp(-100, 100)
}

#[inline(never)]
pub fn t_saturating_neg(a: i128, b: i128) -> i128 {
    let _ = b;
    a.saturating_neg()
}

#[inline(never)]
pub fn t_sat_abs(a: i128, b: i128) -> i128 {
    let _ = b;
    a.saturating_abs()
}

#[inline(never)]
pub fn t_checked_ilog10(a: i128, b: i128) -> Option<i128> {
    let _ = b;
    a.unsigned_abs().checked_ilog10().map(|k| k as i128)
}

#[inline(never)]
pub fn t_checked_ilog10_s(a: i128, b: i128) -> Option<i128> {
    let _ = b;
    a.checked_ilog10().map(|k| k as i128)
}

#[inline(never)]
pub fn t_let_else(a: i128, b: i128) -> i128 {
    let _ = b;
    { let Some(s) = (a as i8).checked_sub(b as i8).filter(|&s| s > 0).map(i8::unsigned_abs) else { return -1 }; s as i128 }
}

#[inline(never)]
pub fn t_then_ok_or(a: i128, b: i128) -> i128 {
    let _ = b;
    (a % 7 == 0).then(|| a / 7).ok_or(3u8).unwrap_or(-2)
}

#[inline(never)]
pub fn t_f64_div(a: i128, b: i128) -> i128 {
    let _ = b;
    (f64::from_bits(a as u64) / f64::from_bits(b as u64)).to_bits() as i128
}

#[inline(never)]
pub fn t_f64_mul(a: i128, b: i128) -> i128 {
    let _ = b;
    (f64::from_bits(a as u64) * f64::from_bits(b as u64)).to_bits() as i128
}

#[inline(never)]
pub fn t_f32_div(a: i128, b: i128) -> i128 {
    let _ = b;
    (f32::from_bits(a as u32) / f32::from_bits(b as u32)).to_bits() as i128
}

#[inline(never)]
pub fn t_f32_add(a: i128, b: i128) -> i128 {
    let _ = b;
    (f32::from_bits(a as u32) + f32::from_bits(b as u32)).to_bits() as i128
}

#[inline(never)]
pub fn t_i64_ratio_f32(a: i128, b: i128) -> i128 {
    let _ = b;
    ((a as i64) as f32 / (10u64.pow((b as u32) % 19)) as f32).to_bits() as i128
}

#[inline(never)]
pub fn t_sub_unsigned(a: i128, b: i128) -> Option<i128> {
    let _ = b;
    (a as isize).checked_sub_unsigned(b as usize).map(|x| x as i128)
}

#[inline(never)]
pub fn t_add_unsigned(a: i128, b: i128) -> Option<i128> {
    let _ = b;
    a.checked_add_unsigned(b as u128)
}

#[inline(never)]
pub fn t_ilog2(a: i128, b: i128) -> i128 {
    let _ = b;
    (a.unsigned_abs().max(1)).ilog2() as i128
}

#[inline(never)]
pub fn t_checked_ilog2(a: i128, b: i128) -> Option<i128> {
    let _ = b;
    a.checked_ilog2().map(|k| k as i128)
}

#[inline(never)]
pub fn t_rev_map(a: i128, b: i128) -> i128 {
    let _ = b;
    { let mut x = a.unsigned_abs(); let mut n: i128 = 0; for step in (0..4u32).rev().map(|i| 1u32 << i) { let p = 5u128.pow(step); if x % p == 0 { x /= p; n += step as i128; } } n.wrapping_add(b & 1) }
}

#[inline(never)]
pub fn t_and_signed_low(a: i128, b: i128) -> i128 {
    let _ = b;
    a & 0xff
}

#[inline(never)]
pub fn t_and_signed_mid(a: i128, b: i128) -> i128 {
    let _ = b;
    a & 0xff00
}

#[inline(never)]
pub fn t_and_signed_1(a: i128, b: i128) -> i128 {
    let _ = b;
    (a & 1).wrapping_add(b & 7)
}

