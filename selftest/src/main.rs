use std::io::{self, BufRead, Write};
use std::panic;
use selftest::*;

fn run(name: &str, a: i128, b: i128) -> String {
    match name {
        "wrapping_add" => { let v = t_wrapping_add(a, b); format!("I {}", v) }
        "wrapping_sub" => { let v = t_wrapping_sub(a, b); format!("I {}", v) }
        "wrapping_mul" => { let v = t_wrapping_mul(a, b); format!("I {}", v) }
        "checked_add" => { let v = t_checked_add(a, b); match v { Some(x) => format!("S {}", x), None => "N".to_string() } }
        "checked_sub" => { let v = t_checked_sub(a, b); match v { Some(x) => format!("S {}", x), None => "N".to_string() } }
        "checked_mul" => { let v = t_checked_mul(a, b); match v { Some(x) => format!("S {}", x), None => "N".to_string() } }
        "saturating_add" => { let v = t_saturating_add(a, b); format!("I {}", v) }
        "saturating_sub" => { let v = t_saturating_sub(a, b); format!("I {}", v) }
        "saturating_mul" => { let v = t_saturating_mul(a, b); format!("I {}", v) }
        "overflowing_add" => { let v = t_overflowing_add(a, b); format!("T {} {}", v.0, v.1 as u8) }
        "overflowing_sub" => { let v = t_overflowing_sub(a, b); format!("T {} {}", v.0, v.1 as u8) }
        "overflowing_mul" => { let v = t_overflowing_mul(a, b); format!("T {} {}", v.0, v.1 as u8) }
        "plain_add" => { let v = t_plain_add(a, b); format!("I {}", v) }
        "plain_sub" => { let v = t_plain_sub(a, b); format!("I {}", v) }
        "plain_mul" => { let v = t_plain_mul(a, b); format!("I {}", v) }
        "plain_div" => { let v = t_plain_div(a, b); format!("I {}", v) }
        "plain_rem" => { let v = t_plain_rem(a, b); format!("I {}", v) }
        "plain_neg" => { let v = t_plain_neg(a, b); format!("I {}", v) }
        "wrapping_neg" => { let v = t_wrapping_neg(a, b); format!("I {}", v) }
        "checked_neg" => { let v = t_checked_neg(a, b); match v { Some(x) => format!("S {}", x), None => "N".to_string() } }
        "wrapping_abs" => { let v = t_wrapping_abs(a, b); format!("I {}", v) }
        "checked_abs" => { let v = t_checked_abs(a, b); match v { Some(x) => format!("S {}", x), None => "N".to_string() } }
        "abs" => { let v = t_abs(a, b); format!("I {}", v) }
        "unsigned_abs" => { let v = t_unsigned_abs(a, b); format!("I {}", v) }
        "abs_diff" => { let v = t_abs_diff(a, b); format!("I {}", v) }
        "signum" => { let v = t_signum(a, b); format!("I {}", v) }
        "checked_div" => { let v = t_checked_div(a, b); match v { Some(x) => format!("S {}", x), None => "N".to_string() } }
        "checked_rem" => { let v = t_checked_rem(a, b); match v { Some(x) => format!("S {}", x), None => "N".to_string() } }
        "ord_min" => { let v = t_ord_min(a, b); format!("I {}", v) }
        "ord_max" => { let v = t_ord_max(a, b); format!("I {}", v) }
        "cmp_min" => { let v = t_cmp_min(a, b); format!("I {}", v) }
        "cmp_max" => { let v = t_cmp_max(a, b); format!("I {}", v) }
        "is_negative" => { let v = t_is_negative(a, b); format!("B {}", v as u8) }
        "is_positive" => { let v = t_is_positive(a, b); format!("B {}", v as u8) }
        "pow3" => { let v = t_pow3(a, b); format!("I {}", v) }
        "xor_sign" => { let v = t_xor_sign(a, b); format!("B {}", v as u8) }
        "lt" => { let v = t_lt(a, b); format!("B {}", v as u8) }
        "le" => { let v = t_le(a, b); format!("B {}", v as u8) }
        "eq" => { let v = t_eq(a, b); format!("B {}", v as u8) }
        "ne" => { let v = t_ne(a, b); format!("B {}", v as u8) }
        "cast_u64" => { let v = t_cast_u64(a, b); format!("I {}", v) }
        "cast_u8" => { let v = t_cast_u8(a, b); format!("I {}", v) }
        "cast_i64" => { let v = t_cast_i64(a, b); format!("I {}", v) }
        "cast_i8" => { let v = t_cast_i8(a, b); format!("I {}", v) }
        "cast_u128" => { let v = t_cast_u128(a, b); format!("I {}", v) }
        "shr5" => { let v = t_shr5(a, b); format!("I {}", v) }
        "shr64" => { let v = t_shr64(a, b); format!("I {}", v) }
        "shl3" => { let v = t_shl3(a, b); format!("I {}", v) }
        "lz_u128" => { let v = t_lz_u128(a, b); format!("I {}", v) }
        "tz_u128" => { let v = t_tz_u128(a, b); format!("I {}", v) }
        "lz_u64" => { let v = t_lz_u64(a, b); format!("I {}", v) }
        "tz_u64" => { let v = t_tz_u64(a, b); format!("I {}", v) }
        "and_mask" => { let v = t_and_mask(a, b); format!("I {}", v) }
        "and_hi" => { let v = t_and_hi(a, b); format!("I {}", v) }
        "low_or" => { let v = t_low_or(a, b); format!("I {}", v) }
        "u_wrapping_neg" => { let v = t_u_wrapping_neg(a, b); format!("I {}", v) }
        "u_checked_sub" => { let v = t_u_checked_sub(a, b); match v { Some(x) => format!("S {}", x), None => "N".to_string() } }
        "u_saturating_sub" => { let v = t_u_saturating_sub(a, b); format!("I {}", v) }
        "u_div" => { let v = t_u_div(a, b); format!("I {}", v) }
        "u_rem" => { let v = t_u_rem(a, b); format!("I {}", v) }
        "opt_unwrap_or" => { let v = t_opt_unwrap_or(a, b); format!("I {}", v) }
        "opt_map" => { let v = t_opt_map(a, b); match v { Some(x) => format!("S {}", x), None => "N".to_string() } }
        "opt_and_then" => { let v = t_opt_and_then(a, b); match v { Some(x) => format!("S {}", x), None => "N".to_string() } }
        "opt_ok_or" => { let v = t_opt_ok_or(a, b); format!("B {}", v as u8) }
        "opt_unwrap_or_else" => { let v = t_opt_unwrap_or_else(a, b); format!("I {}", v) }
        "opt_expect" => { let v = t_opt_expect(a, b); format!("I {}", v) }
        "opt_unwrap" => { let v = t_opt_unwrap(a, b); format!("I {}", v) }
        "opt_or" => { let v = t_opt_or(a, b); match v { Some(x) => format!("S {}", x), None => "N".to_string() } }
        "opt_is_some" => { let v = t_opt_is_some(a, b); format!("B {}", v as u8) }
        "res_ok" => { let v = t_res_ok(a, b); match v { Some(x) => format!("S {}", x), None => "N".to_string() } }
        "res_map" => { let v = t_res_map(a, b); format!("B {}", v as u8) }
        "res_unwrap_or" => { let v = t_res_unwrap_or(a, b); format!("I {}", v) }
        "try_from_u64" => { let v = t_try_from_u64(a, b); match v { Some(x) => format!("S {}", x), None => "N".to_string() } }
        "mem_swap" => { let v = t_mem_swap(a, b); format!("I {}", v) }
        "mem_replace" => { let v = t_mem_replace(a, b); format!("I {}", v) }
        "opt_take" => { let v = t_opt_take(a, b); match v { Some(x) => format!("S {}", x), None => "N".to_string() } }
        "bool_then" => { let v = t_bool_then(a, b); match v { Some(x) => format!("S {}", x), None => "N".to_string() } }
        "from_u8" => { let v = t_from_u8(a, b); format!("I {}", v) }
        "from_i64" => { let v = t_from_i64(a, b); format!("I {}", v) }
        "wrapping_shr7" => { let v = t_wrapping_shr7(a, b); format!("I {}", v) }
        "wrapping_shl131" => { let v = t_wrapping_shl131(a, b); format!("I {}", v) }
        "pow2" => { let v = t_pow2(a, b); format!("I {}", v) }
        "checked_pow" => { let v = t_checked_pow(a, b); match v { Some(x) => format!("S {}", x), None => "N".to_string() } }
        "f64_gt" => { let v = t_f64_gt(a, b); format!("B {}", v as u8) }
        "f64_le" => { let v = t_f64_le(a, b); format!("B {}", v as u8) }
        "f64_eq" => { let v = t_f64_eq(a, b); format!("B {}", v as u8) }
        "f64_ne" => { let v = t_f64_ne(a, b); format!("B {}", v as u8) }
        "f64_lt" => { let v = t_f64_lt(a, b); format!("B {}", v as u8) }
        "f32_gt" => { let v = t_f32_gt(a, b); format!("B {}", v as u8) }
        "f32_ge" => { let v = t_f32_ge(a, b); format!("B {}", v as u8) }
        "f64_to_i128" => { let v = t_f64_to_i128(a, b); format!("I {}", v) }
        "f64_to_u8" => { let v = t_f64_to_u8(a, b); format!("I {}", v) }
        "f32_to_i128" => { let v = t_f32_to_i128(a, b); format!("I {}", v) }
        "f64_to_i64" => { let v = t_f64_to_i64(a, b); format!("I {}", v) }
        "i128_to_f64" => { let v = t_i128_to_f64(a, b); format!("I {}", v) }
        "i128_to_f32" => { let v = t_i128_to_f32(a, b); format!("I {}", v) }
        "u64_to_f64" => { let v = t_u64_to_f64(a, b); format!("I {}", v) }
        "f64_is_nan" => { let v = t_f64_is_nan(a, b); format!("B {}", v as u8) }
        "f64_is_inf" => { let v = t_f64_is_inf(a, b); format!("B {}", v as u8) }
        "f64_gt_max" => { let v = t_f64_gt_max(a, b); format!("B {}", v as u8) }
        "f64_lt_min" => { let v = t_f64_lt_min(a, b); format!("B {}", v as u8) }
        "range_sum" => { let v = t_range_sum(a, b); format!("I {}", v) }
        "range_incl" => { let v = t_range_incl(a, b); format!("I {}", v) }
        "rem_euclid" => { let v = t_rem_euclid(a, b); format!("I {}", v) }
        "div_euclid" => { let v = t_div_euclid(a, b); format!("I {}", v) }
        "ilog10" => { let v = t_ilog10(a, b); format!("I {}", v) }
        "map_or" => { let v = t_map_or(a, b); format!("I {}", v) }
        "opt_filter" => { let v = t_opt_filter(a, b); match v { Some(x) => format!("S {}", x), None => "N".to_string() } }
        "opt_zip" => { let v = t_opt_zip(a, b); format!("I {}", v) }
        "is_some_and" => { let v = t_is_some_and(a, b); format!("B {}", v as u8) }
        "tuple_match" => { let v = t_tuple_match(a, b); format!("I {}", v) }
        "table_lookup" => { let v = t_table_lookup(a, b); format!("I {}", v) }
        "while_loop" => { let v = t_while_loop(a, b); format!("I {}", v) }
        "count_ones" => { let v = t_count_ones(a, b); format!("I {}", v) }
        "u128_mid" => { let v = t_u128_mid(a, b); format!("I {}", v) }
        "clamp_i" => { let v = t_clamp_i(a, b); format!("I {}", v) }
        "saturating_neg" => { let v = t_saturating_neg(a, b); format!("I {}", v) }
        "sat_abs" => { let v = t_sat_abs(a, b); format!("I {}", v) }
        "checked_ilog10" => { let v = t_checked_ilog10(a, b); match v { Some(x) => format!("S {}", x), None => "N".to_string() } }
        "checked_ilog10_s" => { let v = t_checked_ilog10_s(a, b); match v { Some(x) => format!("S {}", x), None => "N".to_string() } }
        "let_else" => { let v = t_let_else(a, b); format!("I {}", v) }
        "then_ok_or" => { let v = t_then_ok_or(a, b); format!("I {}", v) }
        "f64_div" => { let v = t_f64_div(a, b); format!("I {}", v) }
        "f64_mul" => { let v = t_f64_mul(a, b); format!("I {}", v) }
        "f32_div" => { let v = t_f32_div(a, b); format!("I {}", v) }
        "f32_add" => { let v = t_f32_add(a, b); format!("I {}", v) }
        "i64_ratio_f32" => { let v = t_i64_ratio_f32(a, b); format!("I {}", v) }
        "sub_unsigned" => { let v = t_sub_unsigned(a, b); match v { Some(x) => format!("S {}", x), None => "N".to_string() } }
        "add_unsigned" => { let v = t_add_unsigned(a, b); match v { Some(x) => format!("S {}", x), None => "N".to_string() } }
        "ilog2" => { let v = t_ilog2(a, b); format!("I {}", v) }
        "checked_ilog2" => { let v = t_checked_ilog2(a, b); match v { Some(x) => format!("S {}", x), None => "N".to_string() } }
        "rev_map" => { let v = t_rev_map(a, b); format!("I {}", v) }
        "and_signed_low" => { let v = t_and_signed_low(a, b); format!("I {}", v) }
        "and_signed_mid" => { let v = t_and_signed_mid(a, b); format!("I {}", v) }
        "and_signed_1" => { let v = t_and_signed_1(a, b); format!("I {}", v) }
        _ => "BADNAME".to_string(),
    }
}

fn main() {
    panic::set_hook(Box::new(|_| {}));
    let stdin = io::stdin();
    let out = io::stdout();
    let mut out = out.lock();
    for line in stdin.lock().lines() {
        let line = line.unwrap();
        let w: Vec<&str> = line.split_whitespace().collect();
        if w.len() != 3 { continue; }
        let name = w[0].to_string();
        let a: i128 = w[1].parse().unwrap();
        let b: i128 = w[2].parse().unwrap();
        let r = panic::catch_unwind(move || run(&name, a, b));
        match r { Ok(s) => writeln!(out, "{}", s).unwrap(), Err(_) => writeln!(out, "P").unwrap() }
    }
}
